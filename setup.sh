#!/bin/bash
# builds the verifier offline from vendored sources
set -e
cd "$(dirname "$0")/govc"
export GOFLAGS=-mod=vendor GOPROXY=off GOSUMDB=off GOTOOLCHAIN=local
mkdir -p ../bin
go build -o ../bin/govc .
echo "govc built"
