package main

import (
	"fmt"
	"go/types"
	"strings"
)

// *asset.Snapshot (resolved from the loaded packages; used for lemma parameters over snapshot slices)
var snapshotType types.Type = types.Typ[types.Int]

type lemmaParam struct {
	name, kind string
}

func lemmaParams(c *Contract) []lemmaParam {
	var ps []lemmaParam
	for _, p := range strings.Split(c.Attrs["params"], ",") {
		f := strings.Fields(p)
		if len(f) == 2 {
			ps = append(ps, lemmaParam{f[0], f[1]})
		}
	}
	return ps
}

func (e *Engine) lemmaValue(kind, name string, st *State, bound map[string]*Term) Value {
	f64 := types.Typ[types.Float64]
	switch kind {
	case "stream":
		id := mkConst(name, SInt)
		st.assume(mkCmp(">=", e.slen(id), mkInt(0)))
		return VStream{ID: id, Elem: f64}
	case "istream":
		id := mkConst(name, SInt)
		st.assume(mkCmp(">=", e.slen(id), mkInt(0)))
		return VStream{ID: id, Elem: types.Typ[types.Int]}
	case "refslice":
		ln := mkConst(name+".len", SInt)
		st.assume(mkCmp(">=", ln, mkInt(0)))
		return VSlice{Arr: mkConst(name+".arr", arraySort(SInt, SRef)), Len: ln, Elem: types.NewPointer(snapshotType)}
	case "chanslice":
		ln := mkConst(name+".len", SInt)
		st.assume(mkCmp(">=", ln, mkInt(0)))
		return VSlice{Arr: mkConst(name+".arr", sortIntArr), Len: ln, Elem: types.NewChan(types.RecvOnly, types.Typ[types.Int])}
	case "int":
		return VTerm{T: mkConst(name, SInt), Typ: types.Typ[types.Int]}
	case "real":
		return VTerm{T: mkConst(name, SReal), Typ: f64}
	case "func":
		return VFunc{ID: mkConst(name, SInt), Sig: types.NewSignatureType(nil, nil, nil, types.NewTuple(types.NewVar(0, nil, "x", types.NewPointer(snapshotType))), types.NewTuple(types.NewVar(0, nil, "", types.Typ[types.Bool])), false)}
	}
	unsup("lemma parameter kind %s", kind)
	return nil
}

// verifyLemma: base and step obligations of an inductive lemma (or a direct proof when no induction variable)
func (e *Engine) verifyLemma(name string, c *Contract) (rep *FuncReport) {
	fi := &FuncInfo{Key: "lemma." + name, Contract: c}
	e.fi = fi
	e.frames = []frame{{pkg: nil, fi: nil, what: "lemma"}}
	e.obls = nil
	e.notes = map[string]bool{}
	e.obCount = map[string]int{}
	e.idTerms = map[string]*Term{}
	e.baseNames = map[string]Value{}
	e.selfNames = map[string]Value{}
	e.callRes = map[string][]Value{}
	e.globalErrs = map[string]*Term{}
	e.callArgs = map[string][][]Value{}
	e.dynType = map[string]types.Type{}
	e.nfresh = 0
	rep = &FuncReport{Key: fi.Key, Tags: c.tags()}
	e.curTags = rep.Tags
	defer func() {
		if r := recover(); r != nil {
			if u, ok := r.(unsupported); ok {
				rep.Status = "out-of-reach"
				rep.Reason = u.msg
				rep.Obls = e.obls
				return
			}
			panic(r)
		}
	}()
	st := newState()
	names := map[string]Value{}
	for _, p := range lemmaParams(c) {
		names[p.name] = e.lemmaValue(p.kind, p.name, st, nil)
	}
	env := &SpecEnv{e: e, st: st, names: names, noScope: true}
	ind, indFrom := inductionOf(c)
	var reqs, enss []*Term
	for _, cl := range c.byKind("requires", "") {
		reqs = append(reqs, term(e.evalSpec(cl.Expr, env)))
	}
	for _, cl := range c.byKind("ensures", "") {
		enss = append(enss, term(e.evalSpec(cl.Expr, env)))
	}
	for _, r := range reqs {
		st.assume(r)
	}
	e.obls = append(e.obls, &Obligation{Name: fi.Key + "/cover/requires", Func: fi.Key, Tags: rep.Tags, Hyps: append([]*Term(nil), st.pc...), Goal: tFalse, Kind: "cover", Where: c.Where})
	// lemmas may use other (separately proved) lemmas
	for _, cl := range c.byKind("use", "") {
		e.useLemma(cl.Expr, env, st, cl.Where, hasTag(cl.Tags, "cond"))
	}
	if ind == "" {
		for j, g := range enss {
			e.assert(st, g, fmt.Sprintf("ensures#%d", j), c.Where, nil)
		}
	} else {
		iv := term(names[ind])
		// induction hypothesis: the lemma at ind-1 (requires ==> ensures), available only above the declared
		// lower bound ("induction v from L", default 0): at and below the bound the goal is proved outright, so the
		// descent is well founded
		lb := mkInt(0)
		if indFrom != "" {
			fx, err := parseSpec(indFrom)
			if err != nil {
				unsup("lemma %s: induction bound: %v", fi.Key, err)
			}
			lb = term(e.evalSpec(fx, env))
		}
		m := map[string]*Term{iv.Name: mkArith("-", iv, mkInt(1))}
		ih := mkImplies(subst(mkAnd(reqs...), m), subst(mkAnd(enss...), m))
		// two cases, stated separately (solvers do not find the split on the induction variable by themselves):
		// at or below the bound there is no hypothesis; above it the lemma at ind-1 is available
		base := st.clone()
		base.assume(mkCmp("<=", iv, lb))
		for j, g := range enss {
			e.assert(base, g, fmt.Sprintf("induction#%d/base", j), c.Where, nil)
		}
		step := st.clone()
		step.assume(mkCmp(">", iv, lb))
		step.assume(ih)
		for j, g := range enss {
			e.assert(step, g, fmt.Sprintf("induction#%d/step", j), c.Where, nil)
		}
	}
	rep.Status = "checked"
	rep.Obls = e.obls
	return rep
}

// useLemma: assume an instance family of a proved lemma. args bind all parameters except the induction variable
// (which is universally quantified); requires not mentioning the induction variable become obligations here.
// cond: all requires become hypotheses of the assumed instance (nothing is asserted at the use site)
func (e *Engine) useLemma(x *SExpr, env *SpecEnv, st *State, where string, cond bool) {
	// use forall j :: lemma(f(j), ...): the instance family indexed by j
	var outer []*Term
	if x.Kind == "forall" {
		n := *env
		n.bound = map[string]*Term{}
		for k, v := range env.bound {
			n.bound[k] = v
		}
		for _, v := range x.Vars {
			e.nfresh++
			srt := SInt
			if i := strings.Index(v, ":"); i >= 0 {
				if v[i+1:] == "real" {
					srt = SReal
				}
				v = v[:i]
			}
			bv := mkVar(fmt.Sprintf("%s$%d", v, e.nfresh), srt)
			n.bound[v] = bv
			outer = append(outer, bv)
		}
		env = &n
		x = x.Args[0]
		cond = true // nothing about an arbitrary index can be asserted here: requires become hypotheses
	}
	if x.Kind != "call" || x.Args[0].Kind != "ident" {
		unsup("use: expected lemma application, got %s", x)
	}
	name := x.Args[0].Val
	c := e.w.Lemmas[name]
	if c == nil {
		unsup("use: unknown lemma %s", name)
	}
	ps := lemmaParams(c)
	ind, _ := inductionOf(c)
	args := x.Args[1:]
	names := map[string]Value{}
	ai := 0
	var bv *Term
	bvs := append([]*Term(nil), outer...)
	for _, p := range ps {
		if p.name == ind && len(args) == len(ps)-1 {
			e.nfresh++
			bv = mkVar(fmt.Sprintf("%s$%d", p.name, e.nfresh), SInt)
			bvs = append(bvs, bv)
			names[p.name] = VTerm{T: bv, Typ: types.Typ[types.Int]}
			continue
		}
		if ai >= len(args) {
			unsup("use %s: too few arguments", name)
		}
		if args[ai].Kind == "ident" && args[ai].Val == "_" {
			// universally quantified parameter
			e.nfresh++
			srt, typ := SInt, types.Type(types.Typ[types.Int])
			if p.kind == "real" {
				srt, typ = SReal, types.Typ[types.Float64]
			}
			b2 := mkVar(fmt.Sprintf("%s$%d", p.name, e.nfresh), srt)
			bvs = append(bvs, b2)
			names[p.name] = VTerm{T: b2, Typ: typ}
			ai++
			continue
		}
		names[p.name] = e.evalSpec(args[ai], env)
		ai++
	}
	e.notes["lemma used: "+name] = true
	lenv := &SpecEnv{e: e, st: st, names: names, noScope: true}
	var dep, indep []*Term
	mentions := func(t *Term) bool {
		found := false
		var w func(t *Term)
		w = func(t *Term) {
			for _, b := range bvs {
				if t == b {
					found = true
				}
			}
			for _, a := range t.Args {
				w(a)
			}
		}
		w(t)
		return found
	}
	for _, cl := range c.byKind("requires", "") {
		for _, t := range flattenAnd(term(e.evalSpec(cl.Expr, lenv))) {
			if cond || mentions(t) {
				dep = append(dep, t)
			} else {
				indep = append(indep, t)
			}
		}
	}
	for j, t := range indep {
		e.assert(st, t, fmt.Sprintf("use:%s/requires#%d", name, j), where, nil)
	}
	var enss []*Term
	for _, cl := range c.byKind("ensures", "") {
		enss = append(enss, term(e.evalSpec(cl.Expr, lenv)))
	}
	body := mkImplies(mkAnd(dep...), mkAnd(enss...))
	if len(bvs) > 0 {
		st.assume(mkForall(bvs, body, e.patternsMulti(bvs, mkAnd(enss...))))
	} else {
		st.assume(body)
	}
}

// inductionOf: "induction v" or "induction v from L"
func inductionOf(c *Contract) (string, string) {
	for _, cl := range c.byKind("induction", "") {
		f := strings.SplitN(cl.Text, " from ", 2)
		if len(f) == 2 {
			return strings.TrimSpace(f[0]), strings.TrimSpace(f[1])
		}
		return strings.TrimSpace(cl.Text), ""
	}
	return "", ""
}
