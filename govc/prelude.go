package main

// Spec functions available in contracts. Each has a signature, an SMT definition (declare-fun +
// pattern-guarded defining axioms, primitive recursive => consistent) and the names it depends on.
// Streams are passed as their Int ids; element k of stream s is (sel_Real s k) etc.

type PreludeFn struct {
	Poly bool // SMT text has {S} (element sort) and {T} (its tag); instance name is Name_{T}
	Name string
	Args []string // "stream","int","real","bool"
	Ret  string
	SMT  string
	Deps []string // other prelude functions / sel functions used in the axioms
	// derived streams: declaration and defining axiom kept as a term, so that it can be rendered with
	// nonlinear operations abstracted (solve.go abstractNL)
	Decl string
	Ax   *Term
}

var prelude = map[string]*PreludeFn{}

func addPrelude(p *PreludeFn) { prelude[p.Name] = p }

func init() {
	// sqrt: characterised for non-negative arguments
	addPrelude(&PreludeFn{Name: "sqrt", Args: []string{"real"}, Ret: "real", SMT: `
(declare-fun sqrt (Real) Real)
(assert (forall ((x Real)) (! (=> (>= x 0.0) (and (>= (sqrt x) 0.0) (= (* (sqrt x) (sqrt x)) x))) :pattern ((sqrt x)))))
`})
	addPrelude(&PreludeFn{Name: "powr", Args: []string{"real", "real"}, Ret: "real", SMT: `
(declare-fun powr (Real Real) Real)
(assert (forall ((x Real)) (! (= (powr x 2.0) (* x x)) :pattern ((powr x 2.0)))))
(assert (forall ((x Real)) (! (= (powr x (- 1.0)) (/ 1.0 x)) :pattern ((powr x (- 1.0))))))
(assert (forall ((x Real)) (! (= (powr x 1.0) x) :pattern ((powr x 1.0)))))
(assert (forall ((x Real)) (! (= (powr x 0.0) 1.0) :pattern ((powr x 0.0)))))
`})
	// psum(s, i) = s[0] + ... + s[i-1]
	addPrelude(&PreludeFn{Name: "psum", Args: []string{"stream", "int"}, Ret: "real", Deps: []string{"sel_Real"}, SMT: `
(declare-fun psum (Int Int) Real)
(assert (forall ((s Int) (i Int)) (! (=> (<= i 0) (= (psum s i) 0.0)) :pattern ((psum s i)))))
(assert (forall ((s Int) (i Int)) (! (=> (> i 0) (= (psum s i) (+ (psum s (- i 1)) (sel_Real s (- i 1))))) :pattern ((psum s i)))))
`})
	// fcount(f, k) = number of calls j < k of function value f that returned true
	addPrelude(&PreludeFn{Name: "fcount", Args: []string{"func", "int"}, Ret: "int", Deps: []string{"fnret_Bool"}, SMT: `
(declare-fun fcount (Int Int) Int)
(assert (forall ((f Int) (k Int)) (! (=> (<= k 0) (= (fcount f k) 0)) :pattern ((fcount f k)))))
(assert (forall ((f Int) (k Int)) (! (=> (> k 0) (= (fcount f k) (+ (fcount f (- k 1)) (ite (fnret_Bool f (- k 1)) 1 0)))) :pattern ((fcount f k)))))
`})
	// since(s,k): run-length counter (0 at k == 0 or when s[k] != s[k-1])
	addPrelude(&PreludeFn{Name: "since", Poly: true, Args: []string{"stream", "int"}, Ret: "int", Deps: []string{"sel_{T}"}, SMT: `
(declare-fun since_{T} (Int Int) Int)
(assert (forall ((s Int) (k Int)) (! (=> (or (<= k 0) (not (= (sel_{T} s k) (sel_{T} s (- k 1))))) (= (since_{T} s k) 0)) :pattern ((since_{T} s k)))))
(assert (forall ((s Int) (k Int)) (! (=> (and (> k 0) (= (sel_{T} s k) (sel_{T} s (- k 1)))) (= (since_{T} s k) (+ (since_{T} s (- k 1)) 1))) :pattern ((since_{T} s k)))))
`})
	// emaS(a,P,m,k): documented EMA recursion seeded with the SMA of the first P values; value k is the EMA at input position k+P-1
	addPrelude(&PreludeFn{Name: "emaS", Args: []string{"stream", "int", "real", "int"}, Ret: "real", Deps: []string{"psum", "sel_Real"}, SMT: `
(declare-fun emaS (Int Int Real Int) Real)
(assert (forall ((a Int) (P Int) (m Real) (k Int)) (! (=> (<= k 0) (= (emaS a P m k) (/ (psum a P) (to_real P)))) :pattern ((emaS a P m k)))))
(assert (forall ((a Int) (P Int) (m Real) (k Int)) (! (=> (> k 0) (= (emaS a P m k) (+ (* (- (sel_Real a (+ k (- P 1))) (emaS a P m (- k 1))) m) (emaS a P m (- k 1))))) :pattern ((emaS a P m k)))))
`})
	// rmaS(a,P,k): Wilder's smoothing ((prev*(P-1))+x)/P seeded with the SMA of the first P values
	addPrelude(&PreludeFn{Name: "rmaS", Args: []string{"stream", "int", "int"}, Ret: "real", Deps: []string{"psum", "sel_Real"}, SMT: `
(declare-fun rmaS (Int Int Int) Real)
(assert (forall ((a Int) (P Int) (k Int)) (! (=> (<= k 0) (= (rmaS a P k) (/ (psum a P) (to_real P)))) :pattern ((rmaS a P k)))))
(assert (forall ((a Int) (P Int) (k Int)) (! (=> (> k 0) (= (rmaS a P k) (/ (+ (* (rmaS a P (- k 1)) (to_real (- P 1))) (sel_Real a (+ k (- P 1)))) (to_real P)))) :pattern ((rmaS a P k)))))
`})
	// hor(s,k): an upper bound on the last root-input position that values s[0..k] may depend on (C04).
	// Prefix-closed by definition, hence monotone in k; -1 means "depends on no input".
	addPrelude(&PreludeFn{Name: "hor", Args: []string{"stream", "int"}, Ret: "int", SMT: `
(declare-fun hor (Int Int) Int)
(assert (forall ((s Int) (j Int) (k Int)) (! (=> (<= j k) (<= (hor s j) (hor s k))) :pattern ((hor s j) (hor s k)))))
(assert (forall ((s Int) (k Int)) (! (and (>= (hor s k) (- 1)) (=> (< k 0) (= (hor s k) (- 1)))) :pattern ((hor s k)))))
`})
	// warmup(s): the (abstract, non-negative) warm-up of a strategy value behind the Strategy interface (C05)
	addPrelude(&PreludeFn{Name: "warmup", Args: []string{"ref"}, Ret: "int", SMT: `
(declare-fun warmup (Ref) Int)
(assert (forall ((s Ref)) (! (>= (warmup s) 0) :pattern ((warmup s)))))
`})
	// action streams (Int elements: Sell=-1, Hold=0, Buy=1)
	// nlast(a,k): last non-Hold action emitted by NormalizeActions after k inputs (Sell before any)
	addPrelude(&PreludeFn{Name: "nlast", Args: []string{"stream", "int"}, Ret: "int", Deps: []string{"sel_Int"}, SMT: `
(declare-fun nlast (Int Int) Int)
(assert (forall ((a Int) (k Int)) (! (=> (<= k 0) (= (nlast a k) (- 1))) :pattern ((nlast a k)))))
(assert (forall ((a Int) (k Int)) (! (=> (> k 0) (= (nlast a k) (ite (and (not (= (sel_Int a (- k 1)) 0)) (not (= (sel_Int a (- k 1)) (nlast a (- k 1))))) (sel_Int a (- k 1)) (nlast a (- k 1))))) :pattern ((nlast a k)))))
`})
	// normS(a,k): k-th normalised action: a[k] if it is a non-Hold different from the last emitted one, else Hold
	addPrelude(&PreludeFn{Name: "normS", Args: []string{"stream", "int"}, Ret: "int", Deps: []string{"nlast", "sel_Int"}, SMT: `
(declare-fun normS (Int Int) Int)
(assert (forall ((a Int) (k Int)) (! (= (normS a k) (ite (and (not (= (sel_Int a k) 0)) (not (= (sel_Int a k) (nlast a k)))) (sel_Int a k) 0)) :pattern ((normS a k)))))
`})
	// dlast(a,k): standing recommendation after k inputs (Hold before any non-Hold)
	addPrelude(&PreludeFn{Name: "dlast", Args: []string{"stream", "int"}, Ret: "int", Deps: []string{"sel_Int"}, SMT: `
(declare-fun dlast (Int Int) Int)
(assert (forall ((a Int) (k Int)) (! (=> (<= k 0) (= (dlast a k) 0)) :pattern ((dlast a k)))))
(assert (forall ((a Int) (k Int)) (! (=> (> k 0) (= (dlast a k) (ite (not (= (sel_Int a (- k 1)) 0)) (sel_Int a (- k 1)) (dlast a (- k 1))))) :pattern ((dlast a k)))))
`})
	// decorators with a price as closure state (C07, C18): the purchase close of NoLoss / the stop level of StopLoss after k
	// inputs, and the action emitted for input k. a: wrapped strategy's actions (Int), c: closings (Real), p: percentage
	addPrelude(&PreludeFn{Name: "nlB", Args: []string{"stream", "stream", "int"}, Ret: "real", Deps: []string{"sel_Int", "sel_Real"}, SMT: `
(declare-fun nlB (Int Int Int) Real)
(assert (forall ((a Int) (c Int) (k Int)) (! (=> (<= k 0) (= (nlB a c k) 0.0)) :pattern ((nlB a c k)))))
(assert (forall ((a Int) (c Int) (k Int)) (! (=> (> k 0) (= (nlB a c k)
  (ite (and (= (sel_Int a (- k 1)) 1) (= (nlB a c (- k 1)) 0.0)) (sel_Real c (- k 1))
  (ite (and (= (sel_Int a (- k 1)) (- 1)) (not (= (nlB a c (- k 1)) 0.0)) (< (nlB a c (- k 1)) (sel_Real c (- k 1)))) 0.0
       (nlB a c (- k 1)))))) :pattern ((nlB a c k)))))
`})
	addPrelude(&PreludeFn{Name: "nlA", Args: []string{"stream", "stream", "int"}, Ret: "int", Deps: []string{"nlB", "sel_Int", "sel_Real"}, SMT: `
(declare-fun nlA (Int Int Int) Int)
(assert (forall ((a Int) (c Int) (k Int)) (! (= (nlA a c k)
  (ite (and (= (sel_Int a k) 1) (= (nlB a c k) 0.0)) 1
  (ite (and (= (sel_Int a k) (- 1)) (not (= (nlB a c k) 0.0)) (< (nlB a c k) (sel_Real c k))) (- 1) 0))) :pattern ((nlA a c k)))))
`})
	addPrelude(&PreludeFn{Name: "slB", Args: []string{"stream", "stream", "real", "int"}, Ret: "real", Deps: []string{"sel_Int", "sel_Real"}, SMT: `
(declare-fun slB (Int Int Real Int) Real)
(assert (forall ((a Int) (c Int) (p Real) (k Int)) (! (=> (<= k 0) (= (slB a c p k) 0.0)) :pattern ((slB a c p k)))))
(assert (forall ((a Int) (c Int) (p Real) (k Int)) (! (=> (> k 0) (= (slB a c p k)
  (ite (and (= (sel_Int a (- k 1)) 1) (= (slB a c p (- k 1)) 0.0)) (* (sel_Real c (- k 1)) (- 1.0 p))
  (ite (and (not (= (slB a c p (- k 1)) 0.0)) (or (= (sel_Int a (- k 1)) (- 1)) (<= (sel_Real c (- k 1)) (slB a c p (- k 1))))) 0.0
       (slB a c p (- k 1)))))) :pattern ((slB a c p k)))))
`})
	addPrelude(&PreludeFn{Name: "slA", Args: []string{"stream", "stream", "real", "int"}, Ret: "int", Deps: []string{"slB", "sel_Int", "sel_Real"}, SMT: `
(declare-fun slA (Int Int Real Int) Int)
(assert (forall ((a Int) (c Int) (p Real) (k Int)) (! (= (slA a c p k)
  (ite (and (= (sel_Int a k) 1) (= (slB a c p k) 0.0)) 1
  (ite (and (not (= (slB a c p k) 0.0)) (or (= (sel_Int a k) (- 1)) (<= (sel_Real c k) (slB a c p k)))) (- 1) 0))) :pattern ((slA a c p k)))))
`})
	// nobuy(a,k): none of a[0..k-1] is Buy
	addPrelude(&PreludeFn{Name: "nobuy", Args: []string{"stream", "int"}, Ret: "bool", Deps: []string{"sel_Int"}, SMT: `
(declare-fun nobuy (Int Int) Bool)
(assert (forall ((a Int) (k Int)) (! (=> (<= k 0) (nobuy a k)) :pattern ((nobuy a k)))))
(assert (forall ((a Int) (k Int)) (! (=> (> k 0) (= (nobuy a k) (and (nobuy a (- k 1)) (not (= (sel_Int a (- k 1)) 1))))) :pattern ((nobuy a k)))))
`})
	// bhword(a,k): a[0..k-1] is the buy-and-hold word Buy Hold Hold ...
	addPrelude(&PreludeFn{Name: "bhword", Args: []string{"stream", "int"}, Ret: "bool", Deps: []string{"sel_Int"}, SMT: `
(declare-fun bhword (Int Int) Bool)
(assert (forall ((a Int) (k Int)) (! (=> (<= k 0) (bhword a k)) :pattern ((bhword a k)))))
(assert (forall ((a Int) (k Int)) (! (=> (> k 0) (= (bhword a k) (and (bhword a (- k 1)) (= (sel_Int a (- k 1)) (ite (= k 1) 1 0))))) :pattern ((bhword a k)))))
`})
	// ntrans(a,k): number of non-Hold actions among a[0..k-1]
	addPrelude(&PreludeFn{Name: "ntrans", Args: []string{"stream", "int"}, Ret: "int", Deps: []string{"sel_Int"}, SMT: `
(declare-fun ntrans (Int Int) Int)
(assert (forall ((a Int) (k Int)) (! (=> (<= k 0) (= (ntrans a k) 0)) :pattern ((ntrans a k)))))
(assert (forall ((a Int) (k Int)) (! (=> (> k 0) (= (ntrans a k) (+ (ntrans a (- k 1)) (ite (= (sel_Int a (- k 1)) 0) 0 1)))) :pattern ((ntrans a k)))))
`})
	// cntact(A,t,v,i): number of sources j < i (A = array of stream ids) whose t-th action equals v
	addPrelude(&PreludeFn{Name: "cntact", Args: []string{"chanslice", "int", "int", "int"}, Ret: "int", Deps: []string{"sel_Int"}, SMT: `
(declare-fun cntact ((Array Int Int) Int Int Int) Int)
(assert (forall ((A (Array Int Int)) (t Int) (v Int) (i Int)) (! (=> (<= i 0) (= (cntact A t v i) 0)) :pattern ((cntact A t v i)))))
(assert (forall ((A (Array Int Int)) (t Int) (v Int) (i Int)) (! (=> (> i 0) (= (cntact A t v i) (+ (cntact A t v (- i 1)) (ite (= (sel_Int (select A (- i 1)) t) v) 1 0)))) :pattern ((cntact A t v i)))))
`})
	// enumeration of the (finite) key set of a map with string keys: mapkey(H,0..mapcard(H)-1) lists every key once
	addPrelude(&PreludeFn{Name: "mapenum_Str", SMT: `
(declare-fun mapcard_Str ((Array Str Bool)) Int)
(declare-fun mapkey_Str ((Array Str Bool) Int) Str)
(declare-fun mapidx_Str ((Array Str Bool) Str) Int)
(assert (forall ((H (Array Str Bool))) (! (>= (mapcard_Str H) 0) :pattern ((mapcard_Str H)))))
(assert (forall ((H (Array Str Bool)) (i Int)) (! (=> (and (<= 0 i) (< i (mapcard_Str H))) (and (select H (mapkey_Str H i)) (= (mapidx_Str H (mapkey_Str H i)) i))) :pattern ((mapkey_Str H i)))))
(assert (forall ((H (Array Str Bool)) (k Str)) (! (=> (select H k) (and (<= 0 (mapidx_Str H k)) (< (mapidx_Str H k) (mapcard_Str H)) (= (mapkey_Str H (mapidx_Str H k)) k))) :pattern ((mapidx_Str H k)))))
`})
	addPrelude(&PreludeFn{Name: "mapcard_Str", Args: []string{"mapdom"}, Ret: "int", Deps: []string{"mapenum_Str"}})
	addPrelude(&PreludeFn{Name: "mapkey_Str", Args: []string{"mapdom", "int"}, Ret: "str", Deps: []string{"mapenum_Str"}})
	addPrelude(&PreludeFn{Name: "mapidx_Str", Args: []string{"mapdom", "str"}, Ret: "int", Deps: []string{"mapenum_Str"}})
	// cntsince(A,d,k): number of snapshots A[j], j < k, dated on or after d (A = array of snapshot refs)
	addPrelude(&PreludeFn{Name: "cntsince", Args: []string{"refslice", "int", "int"}, Ret: "int", Deps: []string{"fld_Snapshot_Date__Int"}, SMT: `
(declare-fun cntsince ((Array Int Ref) Int Int) Int)
(assert (forall ((A (Array Int Ref)) (d Int) (k Int)) (! (=> (<= k 0) (= (cntsince A d k) 0)) :pattern ((cntsince A d k)))))
(assert (forall ((A (Array Int Ref)) (d Int) (k Int)) (! (=> (> k 0) (= (cntsince A d k) (+ (cntsince A d (- k 1)) (ite (>= (fld_Snapshot_Date__Int (select A (- k 1))) d) 1 0)))) :pattern ((cntsince A d k)))))
`})
	// pos(x) = max(0, x), as an application so that it may occur inside quantifier patterns (ite may not)
	addPrelude(&PreludeFn{Name: "pos", Args: []string{"int"}, Ret: "int", SMT: `
(declare-fun pos (Int) Int)
(assert (forall ((x Int)) (! (= (pos x) (ite (>= x 0) x 0)) :pattern ((pos x)))))
`})
	// wcount(s,lo,hi,v): number of positions j in [lo,hi) with s[j] == v
	addPrelude(&PreludeFn{Name: "wcount", Args: []string{"stream", "int", "int", "real"}, Ret: "int", Deps: []string{"sel_Real"}, SMT: `
(declare-fun wcount (Int Int Int Real) Int)
(assert (forall ((s Int) (lo Int) (hi Int) (v Real)) (! (=> (<= hi lo) (= (wcount s lo hi v) 0)) :pattern ((wcount s lo hi v)))))
(assert (forall ((s Int) (lo Int) (hi Int) (v Real)) (! (=> (> hi lo) (= (wcount s lo hi v) (+ (wcount s lo (- hi 1) v) (ite (= (sel_Real s (- hi 1)) v) 1 0)))) :pattern ((wcount s lo hi v)))))
`})
	// wmaxS / wminS(s,lo,hi): greatest / least of s[lo..hi-1] (hi > lo)
	addPrelude(&PreludeFn{Name: "wmaxS", Args: []string{"stream", "int", "int"}, Ret: "real", Deps: []string{"sel_Real"}, SMT: `
(declare-fun wmaxS (Int Int Int) Real)
(assert (forall ((s Int) (lo Int) (hi Int)) (! (=> (<= hi (+ lo 1)) (= (wmaxS s lo hi) (sel_Real s lo))) :pattern ((wmaxS s lo hi)))))
(assert (forall ((s Int) (lo Int) (hi Int)) (! (=> (> hi (+ lo 1)) (= (wmaxS s lo hi) (ite (>= (wmaxS s lo (- hi 1)) (sel_Real s (- hi 1))) (wmaxS s lo (- hi 1)) (sel_Real s (- hi 1))))) :pattern ((wmaxS s lo hi)))))
`})
	addPrelude(&PreludeFn{Name: "wminS", Args: []string{"stream", "int", "int"}, Ret: "real", Deps: []string{"sel_Real"}, SMT: `
(declare-fun wminS (Int Int Int) Real)
(assert (forall ((s Int) (lo Int) (hi Int)) (! (=> (<= hi (+ lo 1)) (= (wminS s lo hi) (sel_Real s lo))) :pattern ((wminS s lo hi)))))
(assert (forall ((s Int) (lo Int) (hi Int)) (! (=> (> hi (+ lo 1)) (= (wminS s lo hi) (ite (<= (wminS s lo (- hi 1)) (sel_Real s (- hi 1))) (wminS s lo (- hi 1)) (sel_Real s (- hi 1))))) :pattern ((wminS s lo hi)))))
`})
	// agemaxS / ageminS(s,lo,hi): bars since the most recent greatest / least value of s[lo..hi-1] (0 = the last bar)
	addPrelude(&PreludeFn{Name: "agemaxS", Args: []string{"stream", "int", "int"}, Ret: "int", Deps: []string{"sel_Real", "wmaxS"}, SMT: `
(declare-fun agemaxS (Int Int Int) Int)
(assert (forall ((s Int) (lo Int) (hi Int)) (! (=> (<= hi (+ lo 1)) (= (agemaxS s lo hi) 0)) :pattern ((agemaxS s lo hi)))))
(assert (forall ((s Int) (lo Int) (hi Int)) (! (=> (> hi (+ lo 1)) (= (agemaxS s lo hi) (ite (>= (sel_Real s (- hi 1)) (wmaxS s lo (- hi 1))) 0 (+ (agemaxS s lo (- hi 1)) 1)))) :pattern ((agemaxS s lo hi)))))
`})
	addPrelude(&PreludeFn{Name: "ageminS", Args: []string{"stream", "int", "int"}, Ret: "int", Deps: []string{"sel_Real", "wminS"}, SMT: `
(declare-fun ageminS (Int Int Int) Int)
(assert (forall ((s Int) (lo Int) (hi Int)) (! (=> (<= hi (+ lo 1)) (= (ageminS s lo hi) 0)) :pattern ((ageminS s lo hi)))))
(assert (forall ((s Int) (lo Int) (hi Int)) (! (=> (> hi (+ lo 1)) (= (ageminS s lo hi) (ite (<= (sel_Real s (- hi 1)) (wminS s lo (- hi 1))) 0 (+ (ageminS s lo (- hi 1)) 1)))) :pattern ((ageminS s lo hi)))))
`})
	// devsq(s,lo,hi,mu): sum of squared deviations of s[lo..hi-1] from mu
	addPrelude(&PreludeFn{Name: "devsq", Args: []string{"stream", "int", "int", "real"}, Ret: "real", Deps: []string{"sel_Real"}, SMT: `
(declare-fun devsq (Int Int Int Real) Real)
(assert (forall ((s Int) (lo Int) (hi Int) (mu Real)) (! (=> (<= hi lo) (= (devsq s lo hi mu) 0.0)) :pattern ((devsq s lo hi mu)))))
(assert (forall ((s Int) (lo Int) (hi Int) (mu Real)) (! (=> (> hi lo) (= (devsq s lo hi mu) (+ (devsq s lo (- hi 1) mu) (* (- (sel_Real s (- hi 1)) mu) (- (sel_Real s (- hi 1)) mu))))) :pattern ((devsq s lo hi mu)))))
`})
	// wmaW(s,lo,n,P): sum over i < n of s[lo+i] * (i+1) / P  (the documented WMA numerator terms)
	addPrelude(&PreludeFn{Name: "wmaW", Args: []string{"stream", "int", "int", "int"}, Ret: "real", Deps: []string{"sel_Real"}, SMT: `
(declare-fun wmaW (Int Int Int Int) Real)
(assert (forall ((s Int) (lo Int) (n Int) (P Int)) (! (=> (<= n 0) (= (wmaW s lo n P) 0.0)) :pattern ((wmaW s lo n P)))))
(assert (forall ((s Int) (lo Int) (n Int) (P Int)) (! (=> (> n 0) (= (wmaW s lo n P) (+ (wmaW s lo (- n 1) P) (/ (* (sel_Real s (+ lo (- n 1))) (to_real n)) (to_real P))))) :pattern ((wmaW s lo n P)))))
`})
	// nviR(c,v,init,k): Negative Volume Index after bar k+1: unchanged when the volume rose, otherwise moved by the
	// closing change ratio; nviR(.., -1) = init
	addPrelude(&PreludeFn{Name: "nviR", Args: []string{"stream", "stream", "real", "int"}, Ret: "real", Deps: []string{"sel_Real"}, SMT: `
(declare-fun nviR (Int Int Real Int) Real)
(assert (forall ((c Int) (v Int) (i0 Real) (k Int)) (! (=> (< k 0) (= (nviR c v i0 k) i0)) :pattern ((nviR c v i0 k)))))
(assert (forall ((c Int) (v Int) (i0 Real) (k Int)) (! (=> (>= k 0) (= (nviR c v i0 k) (+ (nviR c v i0 (- k 1)) (ite (<= (- (sel_Real v (+ k 1)) (sel_Real v k)) 0.0) (* (/ (- (sel_Real c (+ k 1)) (sel_Real c k)) (sel_Real c k)) (nviR c v i0 (- k 1))) 0.0)))) :pattern ((nviR c v i0 k)))))
`})
	// SuperTrend recursion over the aligned streams m (median price), a (multiplier * ATR), c (closing):
	// stFU / stFL: final upper / lower band, stUP: SuperTrend is on the upper band (the code's upTrend)
	stSMT := `
(declare-fun stFU (Int Int Int Int) Real)
(declare-fun stFL (Int Int Int Int) Real)
(declare-fun stUP (Int Int Int Int) Bool)
(assert (forall ((m Int) (a Int) (c Int) (k Int)) (! (=> (<= k 0) (= (stFU m a c k) (+ (sel_Real m 0) (sel_Real a 0)))) :pattern ((stFU m a c k)))))
(assert (forall ((m Int) (a Int) (c Int) (k Int)) (! (=> (> k 0) (= (stFU m a c k) (ite (or (< (+ (sel_Real m k) (sel_Real a k)) (stFU m a c (- k 1))) (> (sel_Real c (- k 1)) (stFU m a c (- k 1)))) (+ (sel_Real m k) (sel_Real a k)) (stFU m a c (- k 1))))) :pattern ((stFU m a c k)))))
(assert (forall ((m Int) (a Int) (c Int) (k Int)) (! (=> (<= k 0) (= (stFL m a c k) (- (sel_Real m 0) (sel_Real a 0)))) :pattern ((stFL m a c k)))))
(assert (forall ((m Int) (a Int) (c Int) (k Int)) (! (=> (> k 0) (= (stFL m a c k) (ite (or (> (- (sel_Real m k) (sel_Real a k)) (stFL m a c (- k 1))) (< (sel_Real c (- k 1)) (stFL m a c (- k 1)))) (- (sel_Real m k) (sel_Real a k)) (stFL m a c (- k 1))))) :pattern ((stFL m a c k)))))
(assert (forall ((m Int) (a Int) (c Int) (k Int)) (! (=> (<= k 0) (= (stUP m a c k) false)) :pattern ((stUP m a c k)))))
(assert (forall ((m Int) (a Int) (c Int) (k Int)) (! (=> (> k 0) (= (stUP m a c k) (ite (stUP m a c (- k 1)) (<= (sel_Real c k) (stFU m a c k)) (not (>= (sel_Real c k) (stFL m a c k)))))) :pattern ((stUP m a c k)))))
`
	addPrelude(&PreludeFn{Name: "stFU", Args: []string{"stream", "stream", "stream", "int"}, Ret: "real", Deps: []string{"sel_Real"}, SMT: stSMT})
	addPrelude(&PreludeFn{Name: "stFL", Args: []string{"stream", "stream", "stream", "int"}, Ret: "real", Deps: []string{"sel_Real", "stFU"}, SMT: ""})
	addPrelude(&PreludeFn{Name: "stUP", Args: []string{"stream", "stream", "stream", "int"}, Ret: "bool", Deps: []string{"sel_Real", "stFU"}, SMT: ""})
	// kamaR(c,s,P,k): KAMA = Previous KAMA + SC * (Price - Previous KAMA), seeded with the price at position P-1;
	// value k uses the smoothing constant s[k] and the price c[P+k]
	addPrelude(&PreludeFn{Name: "kamaR", Args: []string{"stream", "stream", "int", "int"}, Ret: "real", Deps: []string{"sel_Real"}, SMT: `
(declare-fun kamaR (Int Int Int Int) Real)
(assert (forall ((c Int) (s Int) (P Int) (k Int)) (! (=> (< k 0) (= (kamaR c s P k) (sel_Real c (- P 1)))) :pattern ((kamaR c s P k)))))
(assert (forall ((c Int) (s Int) (P Int) (k Int)) (! (=> (>= k 0) (= (kamaR c s P k) (+ (kamaR c s P (- k 1)) (* (sel_Real s k) (- (sel_Real c (+ P k)) (kamaR c s P (- k 1))))))) :pattern ((kamaR c s P k)))))
`})
}
