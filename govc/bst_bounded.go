package main

import (
	"encoding/json"
	"fmt"
	"strings"
)

// Bounded stand-in for the structural contract of helper.Bst (pointer tree): every history of Insert/Remove/Min/Max
// operations up to a stated length over a 4-value domain (type extremes and duplicates) is run on the real code; each
// operation's result is compared with a multiset, and after the last operation of every history (all lengths up to the
// bound) Contains of every value, Min and Max are compared. A third family builds list-shaped trees (monotone and
// zig-zag insert orders, branch length 16 x the bound) and observes after every operation. Labelled bounded; never
// counted as proved.

const bstBoundedSrc = `package helper

import (
	"encoding/json"
	"fmt"
	"math"
	"os"
	"testing"
)

type zzBstRes struct {
	Type      string ` + "`json:\"type\"`" + `
	Histories int    ` + "`json:\"histories\"`" + `
	Steps     int    ` + "`json:\"steps\"`" + `
	Failure   string ` + "`json:\"failure\"`" + `
}

func zzBstRun[T Number](name string, dom []T, maxLen int, queries bool) zzBstRes {
	res := zzBstRes{Type: name}
	nops := 2 * len(dom) // Insert(v), Remove(v) for each v
	if queries {
		nops += 2 // Min(); Max()
	}
	hist := make([]int, maxLen)
	extremes := func(count map[T]int) (mn, mx T) {
		first := true
		for x, c := range count {
			if c == 0 {
				continue
			}
			if first || x < mn {
				mn = x
			}
			if first || x > mx {
				mx = x
			}
			first = false
		}
		return
	}
	// replays hist[0:n] on a fresh tree: every operation's own result is compared with the multiset (queries are
	// operations of the history, so histories with and without a query between two updates are both explored), and
	// after the last one everything observable is compared
	check := func(n int) string {
		b := NewBst[T]()
		count := map[T]int{}
		size := 0
		for i := 0; i < n; i++ {
			res.Steps++
			if hist[i] >= 2*len(dom) {
				mn, mx := extremes(count)
				if hist[i] == 2*len(dom) {
					if got := b.Min(); got != mn {
						return fmt.Sprintf("step %d Min() = %v, multiset minimum %v (size %d)", i, got, mn, size)
					}
				} else if got := b.Max(); got != mx {
					return fmt.Sprintf("step %d Max() = %v, multiset maximum %v (size %d)", i, got, mx, size)
				}
				continue
			}
			op, v := hist[i]/len(dom), dom[hist[i]%len(dom)]
			if op == 0 {
				b.Insert(v)
				count[v]++
				size++
			} else {
				got := b.Remove(v)
				want := count[v] > 0
				if got != want {
					return fmt.Sprintf("step %d Remove(%v) = %v, multiset says %v", i, v, got, want)
				}
				if want {
					count[v]--
					size--
				}
			}
		}
		for _, x := range dom {
			if b.Contains(x) != (count[x] > 0) {
				return fmt.Sprintf("after step %d Contains(%v) = %v, multiset count %d", n-1, x, b.Contains(x), count[x])
			}
		}
		mn, mx := extremes(count)
		if b.Max() != mx || b.Min() != mn {
			return fmt.Sprintf("after step %d Min/Max = %v/%v, multiset %v/%v (size %d)", n-1, b.Min(), b.Max(), mn, mx, size)
		}
		return ""
	}
	var rec func(depth int) bool
	rec = func(depth int) bool {
		if depth > 0 {
			res.Histories++
			if f := check(depth); f != "" {
				ops := ""
				for i := 0; i < depth; i++ {
					switch {
					case hist[i] == 2*len(dom):
						ops += "Min() "
					case hist[i] == 2*len(dom)+1:
						ops += "Max() "
					case hist[i]/len(dom) == 1:
						ops += fmt.Sprintf("Remove(%v) ", dom[hist[i]%len(dom)])
					default:
						ops += fmt.Sprintf("Insert(%v) ", dom[hist[i]%len(dom)])
					}
				}
				res.Failure = ops + ": " + f
				return false
			}
		}
		if depth == maxLen {
			return true
		}
		for o := 0; o < nops; o++ {
			hist[depth] = o
			if !rec(depth + 1) {
				return false
			}
		}
		return true
	}
	rec(0)
	return res
}

// family 3: degenerate (list-shaped) trees. The tree is not balanced, so monotone and converging zig-zag insert orders
// give a branch as long as the history; each of three insert orders is followed by each of three removal orders, and
// after every single operation Contains of the value just touched, Min and Max are compared with the multiset.
func zzBstChains[T Number](name string, n int) zzBstRes {
	res := zzBstRes{Type: name}
	asc := make([]T, n)
	desc := make([]T, n)
	zig := make([]T, n)
	for i := 0; i < n; i++ {
		asc[i] = T(i + 1)
		desc[i] = T(n - i)
		if i%2 == 0 {
			zig[i] = T(i/2 + 1)
		} else {
			zig[i] = T(n - i/2)
		}
	}
	orders := map[string][]T{"ascending": asc, "descending": desc, "zig-zag": zig}
	for _, in := range []string{"ascending", "descending", "zig-zag"} {
		for _, out := range []string{"ascending", "descending", "zig-zag"} {
			res.Histories++
			b := NewBst[T]()
			count := map[T]int{}
			observe := func(step string, v T) string {
				res.Steps++
				if b.Contains(v) != (count[v] > 0) {
					return fmt.Sprintf("%s: Contains(%v) = %v, multiset count %d", step, v, b.Contains(v), count[v])
				}
				var mn, mx T
				first := true
				for x, c := range count {
					if c == 0 {
						continue
					}
					if first || x < mn {
						mn = x
					}
					if first || x > mx {
						mx = x
					}
					first = false
				}
				if b.Min() != mn || b.Max() != mx {
					return fmt.Sprintf("%s: Min/Max = %v/%v, multiset %v/%v", step, b.Min(), b.Max(), mn, mx)
				}
				return ""
			}
			fail := ""
			for i, v := range orders[in] {
				b.Insert(v)
				count[v]++
				if fail = observe(fmt.Sprintf("%s inserts, after insert %d (%v)", in, i+1, v), v); fail != "" {
					break
				}
			}
			for i, v := range orders[out] {
				if fail != "" {
					break
				}
				if !b.Remove(v) {
					fail = fmt.Sprintf("%s inserts then %s removals: removal %d Remove(%v) = false, value is in the multiset", in, out, i+1, v)
					break
				}
				count[v]--
				fail = observe(fmt.Sprintf("%s inserts then %s removals, after removal %d (%v)", in, out, i+1, v), v)
			}
			if fail != "" {
				res.Failure = fail
				return res
			}
		}
	}
	return res
}

func TestZZBstBounded(t *testing.T) {
	maxLen := 5
	fmt.Sscan(os.Getenv("VERIF_BST_LEN"), &maxLen)
	var out []zzBstRes
	// family 1: four values (type extremes; for float64 the infinities, which are ordered like any other value), queries are
	// operations of the history
	out = append(out, zzBstRun[int8]("int8", []int8{-128, -1, 100, 127}, maxLen, true))
	out = append(out, zzBstRun[int64]("int64", []int64{-9223372036854775808, -1, 9007199254740993, 9223372036854775807}, maxLen, true))
	out = append(out, zzBstRun[float64]("float64", []float64{math.Inf(-1), 0, 2.5, math.Inf(1)}, maxLen, true))
	// family 2: three values, Insert/Remove only, two steps longer: deep enough for removals that follow a
	// two-children removal among duplicates (everything observable is still compared at the end of every history)
	out = append(out, zzBstRun[int8]("int8/3-values", []int8{2, 4, 7}, maxLen+2, false))
	out = append(out, zzBstRun[float64]("float64/3-values", []float64{-1.5e300, 0, 1.5e300}, maxLen+2, false))
	// family 3: list-shaped trees, branch length 16 x the history bound (quick 96, thorough 112)
	out = append(out, zzBstChains[int64](fmt.Sprintf("int64/chains-of-%d", 16*maxLen), 16*maxLen))
	out = append(out, zzBstChains[float64](fmt.Sprintf("float64/chains-of-%d", 16*maxLen), 16*maxLen))
	b, _ := json.Marshal(out)
	os.WriteFile(os.Getenv("VERIF_REPLAY_OUT"), b, 0o644)
}
`

type bstBoundedRes struct {
	Type      string `json:"type"`
	Histories int    `json:"histories"`
	Steps     int    `json:"steps"`
	Failure   string `json:"failure"`
}

func (e *Engine) runBstBounded(maxLen int) ([]bstBoundedRes, string) {
	out, res := e.runOverlayTestOut("helper", "zz_bst_bounded_verif_test.go", bstBoundedSrc, "^TestZZBstBounded$", []string{fmt.Sprintf("VERIF_BST_LEN=%d", maxLen)})
	var rs []bstBoundedRes
	if err := json.Unmarshal([]byte(res), &rs); err != nil {
		return nil, "bounded Bst harness produced no result: " + truncate(strings.TrimSpace(out), 600)
	}
	return rs, ""
}
