package main

import (
	"encoding/json"
	"fmt"
	"strings"
)

// Bounded stand-in for the structural contract of helper.Bst (pointer tree): every history of Insert/Remove
// operations up to a stated length over a 4-value domain (type extremes and duplicates) is run on the real code and
// compared with a multiset after every step. Labelled bounded; never counted as proved.

const bstBoundedSrc = `package helper

import (
	"encoding/json"
	"fmt"
	"os"
	"testing"
)

type zzBstRes struct {
	Type      string ` + "`json:\"type\"`" + `
	Histories int    ` + "`json:\"histories\"`" + `
	Steps     int    ` + "`json:\"steps\"`" + `
	Failure   string ` + "`json:\"failure\"`" + `
}

func zzBstRun[T Number](name string, dom []T, maxLen int) zzBstRes {
	res := zzBstRes{Type: name}
	nops := 2 * len(dom)
	hist := make([]int, maxLen)
	var rec func(depth int) bool
	check := func(n int) string {
		b := NewBst[T]()
		count := map[T]int{}
		size := 0
		for i := 0; i < n; i++ {
			op, v := hist[i]/len(dom), dom[hist[i]%len(dom)]
			if op == 0 {
				b.Insert(v)
				count[v]++
				size++
			} else {
				got := b.Remove(v)
				want := count[v] > 0
				if got != want {
					return fmt.Sprintf("step %d Remove(%v) = %v, multiset says %v", i, v, got, want)
				}
				if want {
					count[v]--
					size--
				}
			}
			res.Steps++
			for _, x := range dom {
				if b.Contains(x) != (count[x] > 0) {
					return fmt.Sprintf("after step %d Contains(%v) = %v, multiset count %d", i, x, b.Contains(x), count[x])
				}
			}
			if size > 0 {
				first := true
				var mn, mx T
				for x, c := range count {
					if c == 0 {
						continue
					}
					if first || x < mn {
						mn = x
					}
					if first || x > mx {
						mx = x
					}
					first = false
				}
				if b.Min() != mn || b.Max() != mx {
					return fmt.Sprintf("after step %d Min/Max = %v/%v, multiset %v/%v", i, b.Min(), b.Max(), mn, mx)
				}
			} else if b.Min() != 0 || b.Max() != 0 {
				return fmt.Sprintf("after step %d empty tree Min/Max = %v/%v", i, b.Min(), b.Max())
			}
		}
		return ""
	}
	rec = func(depth int) bool {
		if depth == maxLen {
			res.Histories++
			if f := check(maxLen); f != "" {
				ops := ""
				for i := 0; i < maxLen; i++ {
					o := "Insert"
					if hist[i]/len(dom) == 1 {
						o = "Remove"
					}
					ops += fmt.Sprintf("%s(%v) ", o, dom[hist[i]%len(dom)])
				}
				res.Failure = ops + ": " + f
				return false
			}
			return true
		}
		for o := 0; o < nops; o++ {
			hist[depth] = o
			if !rec(depth + 1) {
				return false
			}
		}
		return true
	}
	rec(0)
	return res
}

func TestZZBstBounded(t *testing.T) {
	maxLen := 5
	fmt.Sscan(os.Getenv("VERIF_BST_LEN"), &maxLen)
	var out []zzBstRes
	out = append(out, zzBstRun[int8]("int8", []int8{-128, -1, 100, 127}, maxLen))
	out = append(out, zzBstRun[int64]("int64", []int64{-9223372036854775808, -1, 9007199254740993, 9223372036854775807}, maxLen))
	out = append(out, zzBstRun[float64]("float64", []float64{-1.5e300, 0, 2.5, 1.5e300}, maxLen))
	b, _ := json.Marshal(out)
	os.WriteFile(os.Getenv("VERIF_REPLAY_OUT"), b, 0o644)
}
`

type bstBoundedRes struct {
	Type      string `json:"type"`
	Histories int    `json:"histories"`
	Steps     int    `json:"steps"`
	Failure   string `json:"failure"`
}

func (e *Engine) runBstBounded(maxLen int) ([]bstBoundedRes, string) {
	out, res := e.runOverlayTestOut("helper", "zz_bst_bounded_verif_test.go", bstBoundedSrc, "^TestZZBstBounded$", []string{fmt.Sprintf("VERIF_BST_LEN=%d", maxLen)})
	var rs []bstBoundedRes
	if err := json.Unmarshal([]byte(res), &rs); err != nil {
		return nil, "bounded Bst harness produced no result: " + truncate(strings.TrimSpace(out), 600)
	}
	return rs, ""
}
