package main

// SMT terms with light simplification.

import (
	"fmt"
	"math/big"
	"sort"
	"strings"
)

type Sort string

const (
	SInt  Sort = "Int"
	SReal Sort = "Real"
	SBool Sort = "Bool"
)

func arraySort(idx, el Sort) Sort { return Sort("(Array " + string(idx) + " " + string(el) + ")") }
func (s Sort) isArray() bool      { return strings.HasPrefix(string(s), "(Array ") }
func (s Sort) elem() Sort {
	// (Array K V): V is the last top-level component
	t := strings.TrimSuffix(strings.TrimPrefix(string(s), "(Array "), ")")
	depth := 0
	for i := 0; i < len(t); i++ {
		switch t[i] {
		case '(':
			depth++
		case ')':
			depth--
		case ' ':
			if depth == 0 {
				return Sort(t[i+1:])
			}
		}
	}
	return Sort(t)
}

func (s Sort) key() Sort {
	t := strings.TrimSuffix(strings.TrimPrefix(string(s), "(Array "), ")")
	depth := 0
	for i := 0; i < len(t); i++ {
		switch t[i] {
		case '(':
			depth++
		case ')':
			depth--
		case ' ':
			if depth == 0 {
				return Sort(t[:i])
			}
		}
	}
	return SInt
}

type Term struct {
	Op   string // "const" (declared symbol), "int", "real", "bool", "var" (bound), or SMT operator / function name
	Name string // for const / var / app of uninterpreted function
	Args []*Term
	Sort Sort
	Int  *big.Int // for Op=="int"
	Rat  *big.Rat // for Op=="real"
	B    bool     // for Op=="bool"
	// quantifiers: Op "forall"/"exists": Bound = bound vars, Args[0] = body, Pats = patterns
	Bound []*Term
	Pats  [][]*Term
	str   string
}

func (t *Term) String() string {
	if t.str != "" {
		return t.str
	}
	var s string
	switch t.Op {
	case "const", "var":
		s = t.Name
	case "int":
		if t.Int.Sign() < 0 {
			s = "(- " + new(big.Int).Neg(t.Int).String() + ")"
		} else {
			s = t.Int.String()
		}
	case "real":
		n, d := t.Rat.Num(), t.Rat.Denom()
		ns := new(big.Int).Abs(n).String() + ".0"
		if d.Cmp(big.NewInt(1)) != 0 {
			ns = "(/ " + ns + " " + d.String() + ".0)"
		}
		if n.Sign() < 0 {
			ns = "(- " + ns + ")"
		}
		s = ns
	case "bool":
		if t.B {
			s = "true"
		} else {
			s = "false"
		}
	case "forall", "exists":
		var sb strings.Builder
		sb.WriteString("(" + t.Op + " (")
		for _, b := range t.Bound {
			sb.WriteString("(" + b.Name + " " + string(b.Sort) + ")")
		}
		sb.WriteString(") ")
		if len(t.Pats) > 0 {
			sb.WriteString("(! " + t.Args[0].String())
			for _, p := range t.Pats {
				sb.WriteString(" :pattern (")
				for i, pt := range p {
					if i > 0 {
						sb.WriteString(" ")
					}
					sb.WriteString(pt.String())
				}
				sb.WriteString(")")
			}
			sb.WriteString(")")
		} else {
			sb.WriteString(t.Args[0].String())
		}
		sb.WriteString(")")
		s = sb.String()
	case "raw":
		s = t.Name
	case "raw1":
		s = "(" + t.Name + " " + t.Args[0].String() + ")"
	case "constarr":
		s = "((as const " + string(t.Sort) + ") " + t.Args[0].String() + ")"
	case "app":
		if len(t.Args) == 0 {
			s = t.Name
		} else {
			var sb strings.Builder
			sb.WriteString("(" + t.Name)
			for _, a := range t.Args {
				sb.WriteString(" " + a.String())
			}
			sb.WriteString(")")
			s = sb.String()
		}
	default:
		var sb strings.Builder
		sb.WriteString("(" + t.Op)
		for _, a := range t.Args {
			sb.WriteString(" " + a.String())
		}
		sb.WriteString(")")
		s = sb.String()
	}
	t.str = s
	return s
}

func mkConst(name string, s Sort) *Term { return &Term{Op: "const", Name: name, Sort: s} }
func mkVar(name string, s Sort) *Term   { return &Term{Op: "var", Name: name, Sort: s} }
func mkInt(i int64) *Term               { return &Term{Op: "int", Int: big.NewInt(i), Sort: SInt} }
func mkBigInt(i *big.Int) *Term         { return &Term{Op: "int", Int: i, Sort: SInt} }
func mkRat(r *big.Rat) *Term            { return &Term{Op: "real", Rat: r, Sort: SReal} }
func mkBool(b bool) *Term               { return &Term{Op: "bool", B: b, Sort: SBool} }

var tTrue, tFalse = mkBool(true), mkBool(false)

func isTrue(t *Term) bool  { return t.Op == "bool" && t.B }
func isFalse(t *Term) bool { return t.Op == "bool" && !t.B }

func mkApp(name string, s Sort, args ...*Term) *Term {
	return &Term{Op: "app", Name: name, Args: args, Sort: s}
}

func toReal(t *Term) *Term {
	if t.Sort == SReal {
		return t
	}
	if t.Sort != SInt {
		panic(fmt.Sprintf("toReal of %s : %s", t, t.Sort))
	}
	if t.Op == "int" {
		return mkRat(new(big.Rat).SetInt(t.Int))
	}
	return &Term{Op: "to_real", Args: []*Term{t}, Sort: SReal}
}

// unify numeric sorts of two terms (Int -> Real when mixed)
func numUnify(a, b *Term) (*Term, *Term) {
	if a.Sort == b.Sort {
		return a, b
	}
	if a.Sort == SInt && b.Sort == SReal {
		return toReal(a), b
	}
	if a.Sort == SReal && b.Sort == SInt {
		return a, toReal(b)
	}
	return a, b
}

func mkNot(a *Term) *Term {
	if a.Op == "bool" {
		return mkBool(!a.B)
	}
	if a.Op == "not" {
		return a.Args[0]
	}
	return &Term{Op: "not", Args: []*Term{a}, Sort: SBool}
}

func mkAnd(as ...*Term) *Term {
	var out []*Term
	for _, a := range as {
		if isTrue(a) {
			continue
		}
		if isFalse(a) {
			return tFalse
		}
		if a.Op == "and" {
			out = append(out, a.Args...)
		} else {
			out = append(out, a)
		}
	}
	if len(out) == 0 {
		return tTrue
	}
	if len(out) == 1 {
		return out[0]
	}
	return &Term{Op: "and", Args: out, Sort: SBool}
}

func mkOr(as ...*Term) *Term {
	var out []*Term
	for _, a := range as {
		if isFalse(a) {
			continue
		}
		if isTrue(a) {
			return tTrue
		}
		if a.Op == "or" {
			out = append(out, a.Args...)
		} else {
			out = append(out, a)
		}
	}
	if len(out) == 0 {
		return tFalse
	}
	if len(out) == 1 {
		return out[0]
	}
	return &Term{Op: "or", Args: out, Sort: SBool}
}

func mkImplies(a, b *Term) *Term {
	if isTrue(a) {
		return b
	}
	if isFalse(a) || isTrue(b) {
		return tTrue
	}
	return &Term{Op: "=>", Args: []*Term{a, b}, Sort: SBool}
}

func mkIte(c, a, b *Term) *Term {
	if isTrue(c) {
		return a
	}
	if isFalse(c) {
		return b
	}
	a, b = numUnify(a, b)
	if a.String() == b.String() {
		return a
	}
	if a.Sort == SBool {
		return mkAnd(mkImplies(c, a), mkImplies(mkNot(c), b))
	}
	return &Term{Op: "ite", Args: []*Term{c, a, b}, Sort: a.Sort}
}

func mkEq(a, b *Term) *Term {
	a, b = numUnify(a, b)
	if a.Sort != b.Sort {
		panic(fmt.Sprintf("mkEq sort mismatch: %s:%s vs %s:%s", a, a.Sort, b, b.Sort))
	}
	if a.Op == "int" && b.Op == "int" {
		return mkBool(a.Int.Cmp(b.Int) == 0)
	}
	if a.Op == "real" && b.Op == "real" {
		return mkBool(a.Rat.Cmp(b.Rat) == 0)
	}
	if a.Op == "bool" && b.Op == "bool" {
		return mkBool(a.B == b.B)
	}
	if a.Sort == SBool {
		if isTrue(b) {
			return a
		}
		if isTrue(a) {
			return b
		}
		if isFalse(b) {
			return mkNot(a)
		}
		if isFalse(a) {
			return mkNot(b)
		}
	}
	if a.String() == b.String() {
		return tTrue
	}
	return &Term{Op: "=", Args: []*Term{a, b}, Sort: SBool}
}

func mkCmp(op string, a, b *Term) *Term {
	a, b = numUnify(a, b)
	if a.Op == "int" && b.Op == "int" {
		c := a.Int.Cmp(b.Int)
		return mkBool(cmpRes(op, c))
	}
	if a.Op == "real" && b.Op == "real" {
		c := a.Rat.Cmp(b.Rat)
		return mkBool(cmpRes(op, c))
	}
	return &Term{Op: op, Args: []*Term{a, b}, Sort: SBool}
}

func cmpRes(op string, c int) bool {
	switch op {
	case "<":
		return c < 0
	case "<=":
		return c <= 0
	case ">":
		return c > 0
	case ">=":
		return c >= 0
	}
	panic(op)
}

func mkArith(op string, a, b *Term) *Term {
	a, b = numUnify(a, b)
	if a.Sort != SInt && a.Sort != SReal {
		panic(fmt.Sprintf("arith on %s:%s", a, a.Sort))
	}
	if a.Op == "int" && b.Op == "int" {
		r := new(big.Int)
		switch op {
		case "+":
			return mkBigInt(r.Add(a.Int, b.Int))
		case "-":
			return mkBigInt(r.Sub(a.Int, b.Int))
		case "*":
			return mkBigInt(r.Mul(a.Int, b.Int))
		}
	}
	if a.Op == "real" && b.Op == "real" {
		r := new(big.Rat)
		switch op {
		case "+":
			return mkRat(r.Add(a.Rat, b.Rat))
		case "-":
			return mkRat(r.Sub(a.Rat, b.Rat))
		case "*":
			return mkRat(r.Mul(a.Rat, b.Rat))
		case "/":
			if b.Rat.Sign() != 0 {
				return mkRat(r.Quo(a.Rat, b.Rat))
			}
		}
	}
	isZero := func(t *Term) bool {
		return (t.Op == "int" && t.Int.Sign() == 0) || (t.Op == "real" && t.Rat.Sign() == 0)
	}
	switch op {
	case "+":
		if isZero(a) {
			return b
		}
		if isZero(b) {
			return a
		}
		// (x - c) + c, (x + c1) + c2 folding for ints
		if b.Op == "int" && a.Op == "+" && len(a.Args) == 2 && a.Args[1].Op == "int" {
			return mkArith("+", a.Args[0], mkBigInt(new(big.Int).Add(a.Args[1].Int, b.Int)))
		}
		if b.Op == "int" && a.Op == "-" && len(a.Args) == 2 && a.Args[1].Op == "int" {
			return mkArith("+", a.Args[0], mkBigInt(new(big.Int).Sub(b.Int, a.Args[1].Int)))
		}
		if b.Op == "int" && b.Int.Sign() < 0 {
			return mkArith("-", a, mkBigInt(new(big.Int).Neg(b.Int)))
		}
	case "-":
		if isZero(b) {
			return a
		}
		if a.String() == b.String() {
			if a.Sort == SInt {
				return mkInt(0)
			}
			return mkRat(new(big.Rat))
		}
		if b.Op == "int" && a.Op == "+" && len(a.Args) == 2 && a.Args[1].Op == "int" {
			return mkArith("+", a.Args[0], mkBigInt(new(big.Int).Sub(a.Args[1].Int, b.Int)))
		}
		if b.Op == "int" && a.Op == "-" && len(a.Args) == 2 && a.Args[1].Op == "int" {
			return mkArith("-", a.Args[0], mkBigInt(new(big.Int).Add(a.Args[1].Int, b.Int)))
		}
		if b.Op == "int" && b.Int.Sign() < 0 {
			return mkArith("+", a, mkBigInt(new(big.Int).Neg(b.Int)))
		}
	}
	sop := op
	if op == "/" && a.Sort == SInt {
		panic("integer division must go through mkIntDiv")
	}
	return &Term{Op: sop, Args: []*Term{a, b}, Sort: a.Sort}
}

func mkNeg(a *Term) *Term {
	if a.Op == "int" {
		return mkBigInt(new(big.Int).Neg(a.Int))
	}
	if a.Op == "real" {
		return mkRat(new(big.Rat).Neg(a.Rat))
	}
	return &Term{Op: "-", Args: []*Term{a}, Sort: a.Sort}
}

func mkIntDiv(a, b *Term) *Term {
	if a.Op == "int" && b.Op == "int" && b.Int.Sign() > 0 && a.Int.Sign() >= 0 {
		return mkBigInt(new(big.Int).Div(a.Int, b.Int))
	}
	return &Term{Op: "div", Args: []*Term{a, b}, Sort: SInt}
}
func mkIntMod(a, b *Term) *Term {
	if a.Op == "int" && b.Op == "int" && b.Int.Sign() > 0 && a.Int.Sign() >= 0 {
		return mkBigInt(new(big.Int).Mod(a.Int, b.Int))
	}
	return &Term{Op: "mod", Args: []*Term{a, b}, Sort: SInt}
}

func mkMax(a, b *Term) *Term {
	a, b = numUnify(a, b)
	return mkIte(mkCmp(">=", a, b), a, b)
}
func mkMin(a, b *Term) *Term {
	a, b = numUnify(a, b)
	return mkIte(mkCmp("<=", a, b), a, b)
}

func mkSelect(arr, idx *Term) *Term {
	// select over store with literal indices
	for arr.Op == "store" {
		si := arr.Args[1]
		if si.String() == idx.String() {
			return arr.Args[2]
		}
		if si.Op == "int" && idx.Op == "int" {
			arr = arr.Args[0]
			continue
		}
		break
	}
	return &Term{Op: "select", Args: []*Term{arr, idx}, Sort: arr.Sort.elem()}
}

func mkStore(arr, idx, v *Term) *Term {
	if v.Sort != arr.Sort.elem() {
		if arr.Sort.elem() == SReal && v.Sort == SInt {
			v = toReal(v)
		} else {
			panic(fmt.Sprintf("store sort mismatch %s into %s", v.Sort, arr.Sort))
		}
	}
	return &Term{Op: "store", Args: []*Term{arr, idx, v}, Sort: arr.Sort}
}

func mkForall(bound []*Term, body *Term, pats [][]*Term) *Term {
	if isTrue(body) {
		return tTrue
	}
	if len(bound) == 0 {
		return body
	}
	return &Term{Op: "forall", Bound: bound, Args: []*Term{body}, Sort: SBool, Pats: pats}
}
func mkExists(bound []*Term, body *Term) *Term {
	if len(bound) == 0 {
		return body
	}
	return &Term{Op: "exists", Bound: bound, Args: []*Term{body}, Sort: SBool}
}

// substitute bound variables / constants by name
func subst(t *Term, m map[string]*Term) *Term {
	switch t.Op {
	case "const", "var":
		if r, ok := m[t.Name]; ok {
			return r
		}
		return t
	case "int", "real", "bool":
		return t
	case "forall", "exists":
		m2 := m
		for _, b := range t.Bound {
			if _, ok := m[b.Name]; ok {
				if len(m2) == len(m) {
					m2 = map[string]*Term{}
					for k, v := range m {
						m2[k] = v
					}
				}
				delete(m2, b.Name)
			}
		}
		body := subst(t.Args[0], m2)
		var pats [][]*Term
		for _, p := range t.Pats {
			var np []*Term
			for _, x := range p {
				np = append(np, subst(x, m2))
			}
			pats = append(pats, np)
		}
		return &Term{Op: t.Op, Bound: t.Bound, Args: []*Term{body}, Sort: SBool, Pats: pats}
	}
	args := make([]*Term, len(t.Args))
	changed := false
	for i, a := range t.Args {
		args[i] = subst(a, m)
		if args[i] != a {
			changed = true
		}
	}
	if !changed {
		return t
	}
	return rebuild(t, args)
}

// rebuild a term with new args through the simplifying constructors
func rebuild(t *Term, args []*Term) *Term {
	switch t.Op {
	case "and":
		return mkAnd(args...)
	case "or":
		return mkOr(args...)
	case "not":
		return mkNot(args[0])
	case "=>":
		return mkImplies(args[0], args[1])
	case "ite":
		return mkIte(args[0], args[1], args[2])
	case "=":
		return mkEq(args[0], args[1])
	case "<", "<=", ">", ">=":
		return mkCmp(t.Op, args[0], args[1])
	case "+", "*", "/":
		if len(args) == 2 {
			return mkArith(t.Op, args[0], args[1])
		}
	case "-":
		if len(args) == 2 {
			return mkArith("-", args[0], args[1])
		}
		return mkNeg(args[0])
	case "select":
		return mkSelect(args[0], args[1])
	case "store":
		return mkStore(args[0], args[1], args[2])
	case "div":
		return mkIntDiv(args[0], args[1])
	case "mod":
		return mkIntMod(args[0], args[1])
	case "to_real":
		return toReal(args[0])
	}
	return &Term{Op: t.Op, Name: t.Name, Args: args, Sort: t.Sort}
}

// collect free symbols: consts (name->sort) and uninterpreted function apps (name -> signature)
type symtab struct {
	consts map[string]Sort
	funcs  map[string]string // name -> "(argsorts) ret"
	sorts  map[Sort]bool
}

func newSymtab() *symtab {
	return &symtab{consts: map[string]Sort{}, funcs: map[string]string{}, sorts: map[Sort]bool{}}
}

func (st *symtab) noteSort(s Sort) {
	if s == SInt || s == SReal || s == SBool {
		return
	}
	if s.isArray() {
		st.noteSort(s.elem())
		st.noteSort(s.key())
		return
	}
	if strings.HasPrefix(string(s), "(_") || s == "" {
		return
	}
	st.sorts[s] = true
}

func (st *symtab) walk(t *Term) {
	switch t.Op {
	case "const":
		st.consts[t.Name] = t.Sort
		st.noteSort(t.Sort)
	case "var":
		st.noteSort(t.Sort)
	case "app":
		var sb strings.Builder
		sb.WriteString("(")
		for i, a := range t.Args {
			if i > 0 {
				sb.WriteString(" ")
			}
			sb.WriteString(string(a.Sort))
			st.noteSort(a.Sort)
		}
		sb.WriteString(") " + string(t.Sort))
		st.noteSort(t.Sort)
		sig := sb.String()
		if old, ok := st.funcs[t.Name]; ok && old != sig {
			panic(fmt.Sprintf("function %s used with two signatures: %s vs %s", t.Name, old, sig))
		}
		st.funcs[t.Name] = sig
	case "forall", "exists":
		for _, b := range t.Bound {
			st.noteSort(b.Sort)
		}
		for _, p := range t.Pats {
			for _, x := range p {
				st.walk(x)
			}
		}
	}
	for _, a := range t.Args {
		st.walk(a)
	}
}

func (st *symtab) names() map[string]bool {
	m := map[string]bool{}
	for k := range st.consts {
		m[k] = true
	}
	for k := range st.funcs {
		m["@"+k] = true
	}
	return m
}

func sortedKeys[V any](m map[string]V) []string {
	ks := make([]string, 0, len(m))
	for k := range m {
		ks = append(ks, k)
	}
	sort.Strings(ks)
	return ks
}
