package main

import (
	"flag"
	"fmt"
	"go/ast"
	"go/constant"
	"go/types"
	"os"
	"path/filepath"
	"sort"
	"strings"
)

// govc genctor: generates the constructor contracts (between markers in <pkg>/zz_contracts_verif.go) mechanically from
// the constructors' own source: what a New* function promises is read off its returned literal —
//   * the object and every sub-object built by a nested constructor call is fresh, and sub-objects of one type are
//     pairwise distinct (no two stages share one configuration object);
//   * a field initialised with a parameter equals that parameter, a field initialised with a constant has that value,
//     transitively through nested constructor calls whose arguments are parameters or constants.
// The clauses are then PROVED by govc like any other contract; the generator only saves typing. Constructors whose body
// is not a single `return &T{...}` / `return NewX(...)` get the freshness clauses only.

const ctorBegin = "// ---- generated constructor contracts (govc genctor; do not edit by hand) ----"
const ctorEnd = "// ---- end of generated constructor contracts ----"

type ctorFact struct {
	path string // field path below result, e.g. "Ema1.Period"
	expr string // parameter name or literal
}

type ctorInfo struct {
	fi     *FuncInfo
	facts  []ctorFact
	fresh  map[string]string // path -> type string of the pointee
	done   bool
	simple bool
}

func cmdGenCtor(args []string) int {
	fs := flag.NewFlagSet("genctor", flag.ExitOnError)
	repo := fs.String("repo", "/repo", "repository root")
	fs.Parse(args)
	w, err := loadWorld(*repo, *repo)
	if err != nil {
		fmt.Println("load:", err)
		return 1
	}
	infos := map[*types.Func]*ctorInfo{}
	var keys []string
	for k, fi := range w.Funcs {
		if fi.Decl.Recv != nil || !strings.HasPrefix(fi.Decl.Name.Name, "New") {
			continue
		}
		sp := shortPkg(fi.Pkg.PkgPath)
		if !(sp == "trend" || sp == "momentum" || sp == "volatility" || sp == "volume" || strings.HasPrefix(sp, "strategy")) {
			continue
		}
		if ctorResultStruct(fi) == nil || !ctorInSubset(fi) {
			// left without a contract: such constructors are inlined at their call sites as before
			continue
		}
		infos[fi.Obj] = &ctorInfo{fi: fi}
		keys = append(keys, k)
	}
	sort.Strings(keys)
	var analyse func(ci *ctorInfo, depth int)
	analyse = func(ci *ctorInfo, depth int) {
		if ci.done || depth > 6 {
			return
		}
		ci.done = true
		ci.fresh = map[string]string{}
		fi := ci.fi
		info := fi.Pkg.TypesInfo
		params := map[types.Object]string{}
		for _, f := range fi.Decl.Type.Params.List {
			for _, n := range f.Names {
				if o := info.Defs[n]; o != nil {
					params[o] = n.Name
				}
			}
		}
		// value of an argument / field initialiser in terms of this constructor's parameters
		var valueOf func(x ast.Expr) (string, bool)
		// a derived period such as int(math.Round(math.Sqrt(float64(period)))): the same expression in the spec language
		arith := func(x ast.Expr) (string, bool) {
			switch e := ast.Unparen(x).(type) {
			case *ast.BinaryExpr:
				switch e.Op.String() {
				case "+", "-", "*", "/":
					a, ok1 := valueOf(e.X)
					b, ok2 := valueOf(e.Y)
					if ok1 && ok2 {
						if e.Op.String() == "/" {
							// spec-level division of two integers is integer division: only real quotients are translated
							if bt, ok := info.TypeOf(e.X).Underlying().(*types.Basic); !ok || bt.Info()&types.IsFloat == 0 {
								return "", false
							}
						}
						return "(" + a + " " + e.Op.String() + " " + b + ")", true
					}
				}
			case *ast.CallExpr:
				if len(e.Args) != 1 {
					return "", false
				}
				name := ""
				switch f := ast.Unparen(e.Fun).(type) {
				case *ast.Ident:
					name = f.Name
				case *ast.SelectorExpr:
					if id, ok := f.X.(*ast.Ident); ok {
						name = id.Name + "." + f.Sel.Name
					}
				}
				a, ok := valueOf(e.Args[0])
				if !ok {
					return "", false
				}
				switch name {
				case "float64", "float32":
					return "real(" + a + ")", true
				case "math.Round":
					return "round(" + a + ")", true
				case "math.Sqrt":
					return "sqrt(" + a + ")", true
				case "int":
					if bt, ok := info.TypeOf(e.Args[0]).Underlying().(*types.Basic); ok && bt.Info()&types.IsFloat != 0 {
						return "trunc(" + a + ")", true
					}
				}
			}
			return "", false
		}
		valueOf = func(x ast.Expr) (string, bool) {
			if v, ok := arith(x); ok {
				return v, true
			}
			x = ast.Unparen(x)
			if tv, ok := info.Types[x]; ok && tv.Value != nil {
				switch tv.Value.Kind() {
				case constant.Int:
					return tv.Value.ExactString(), true
				case constant.Float:
					f, _ := constant.Float64Val(tv.Value)
					s := fmt.Sprintf("%v", f)
					if strings.ContainsAny(s, "eE") || strings.HasPrefix(s, "-") {
						return "", false
					}
					return s, true
				case constant.Bool:
					return tv.Value.String(), true
				}
				return "", false
			}
			if id, ok := x.(*ast.Ident); ok {
				if n, ok := params[info.ObjectOf(id)]; ok {
					if b, isB := info.TypeOf(id).Underlying().(*types.Basic); isB && b.Info()&(types.IsNumeric|types.IsBoolean) != 0 {
						return n, true
					}
					if _, isTP := info.TypeOf(id).(*types.TypeParam); isTP {
						return n, true
					}
				}
			}
			return "", false
		}
		calleeOf := func(x ast.Expr) (*ctorInfo, *ast.CallExpr) {
			cx, ok := ast.Unparen(x).(*ast.CallExpr)
			if !ok {
				return nil, nil
			}
			fun := ast.Unparen(cx.Fun)
			if ix, ok := fun.(*ast.IndexExpr); ok {
				fun = ix.X
			}
			if ix, ok := fun.(*ast.IndexListExpr); ok {
				fun = ix.X
			}
			var id *ast.Ident
			switch f := fun.(type) {
			case *ast.Ident:
				id = f
			case *ast.SelectorExpr:
				id = f.Sel
			}
			if id == nil {
				return nil, nil
			}
			fn, _ := info.ObjectOf(id).(*types.Func)
			if fn == nil {
				return nil, nil
			}
			return infos[fn.Origin()], cx
		}
		// facts of a nested constructor call, re-rooted at prefix and with its parameters replaced by the call's arguments
		inherit := func(prefix string, callee *ctorInfo, cx *ast.CallExpr) {
			analyse(callee, depth+1)
			sub := map[string]string{}
			i := 0
			for _, f := range callee.fi.Decl.Type.Params.List {
				for _, n := range f.Names {
					if i < len(cx.Args) {
						if v, ok := valueOf(cx.Args[i]); ok {
							sub[n.Name] = v
						}
					}
					i++
				}
			}
			dot := ""
			if prefix != "" {
				dot = prefix + "."
			}
			for _, f := range callee.facts {
				e := f.expr
				if isIdentLike(e) {
					v, ok := sub[e]
					if !ok {
						continue
					}
					e = v
				}
				ci.facts = append(ci.facts, ctorFact{dot + f.path, e})
			}
			for p, t := range callee.fresh {
				if p == "" {
					ci.fresh[prefix] = t
				} else {
					ci.fresh[dot+p] = t
				}
			}
		}
		st := ctorResultStruct(fi)
		ci.fresh[""] = st.String()
		// initialiser: &T{...} or NewX(...)
		initFrom := func(res ast.Expr) bool {
			res = ast.Unparen(res)
			if callee, cx := calleeOf(res); callee != nil {
				delete(ci.fresh, "")
				inherit("", callee, cx)
				return true
			}
			u, ok := res.(*ast.UnaryExpr)
			if !ok {
				return false
			}
			cl, ok := ast.Unparen(u.X).(*ast.CompositeLit)
			if !ok {
				return false
			}
			sty, _ := info.TypeOf(cl).Underlying().(*types.Struct)
			for i, el := range cl.Elts {
				name := ""
				val := el
				if kv, ok := el.(*ast.KeyValueExpr); ok {
					name = kv.Key.(*ast.Ident).Name
					val = kv.Value
				} else if sty != nil && i < sty.NumFields() {
					name = sty.Field(i).Name()
				}
				if name == "" {
					continue
				}
				if v, ok := valueOf(val); ok {
					ci.facts = append(ci.facts, ctorFact{name, v})
					continue
				}
				if callee, cx := calleeOf(val); callee != nil {
					if _, isPtr := info.TypeOf(val).Underlying().(*types.Pointer); isPtr {
						inherit(name, callee, cx)
					}
				}
			}
			return true
		}
		body := fi.Decl.Body.List
		if len(body) == 0 {
			return
		}
		ret, ok := body[len(body)-1].(*ast.ReturnStmt)
		if !ok || len(ret.Results) != 1 {
			return
		}
		if len(body) == 1 {
			ci.simple = initFrom(ret.Results[0])
			return
		}
		// x := <initialiser>; x.a.b = v; ...; return x
		def, ok := body[0].(*ast.AssignStmt)
		rid, isID := ast.Unparen(ret.Results[0]).(*ast.Ident)
		if !ok || !isID || len(def.Lhs) != 1 || len(def.Rhs) != 1 {
			return
		}
		lid, ok := def.Lhs[0].(*ast.Ident)
		if !ok || info.ObjectOf(lid) == nil || info.ObjectOf(lid) != info.ObjectOf(rid) {
			return
		}
		if !initFrom(def.Rhs[0]) {
			return
		}
		for _, stmt := range body[1 : len(body)-1] {
			as, ok := stmt.(*ast.AssignStmt)
			if !ok || len(as.Lhs) != 1 || len(as.Rhs) != 1 {
				// anything else: keep freshness, forget the field facts
				ci.facts = nil
				return
			}
			var segs []string
			x := ast.Unparen(as.Lhs[0])
			for {
				se, ok := x.(*ast.SelectorExpr)
				if !ok {
					break
				}
				segs = append([]string{se.Sel.Name}, segs...)
				x = ast.Unparen(se.X)
			}
			root, ok := x.(*ast.Ident)
			if !ok || info.ObjectOf(root) != info.ObjectOf(lid) || len(segs) == 0 {
				ci.facts = nil
				return
			}
			path := strings.Join(segs, ".")
			var kept []ctorFact
			for _, f := range ci.facts {
				if f.path != path && !strings.HasPrefix(f.path, path+".") {
					kept = append(kept, f)
				}
			}
			ci.facts = kept
			for pth := range ci.fresh {
				if pth == path || strings.HasPrefix(pth, path+".") {
					delete(ci.fresh, pth)
				}
			}
			if v, ok := valueOf(as.Rhs[0]); ok {
				ci.facts = append(ci.facts, ctorFact{path, v})
			} else if callee, cx := calleeOf(as.Rhs[0]); callee != nil {
				inherit(path, callee, cx)
			}
		}
		ci.simple = true
	}
	byPkg := map[string][]string{}
	n := 0
	for _, k := range keys {
		fi := w.Funcs[k]
		ci := infos[fi.Obj]
		analyse(ci, 0)
		sp := shortPkg(fi.Pkg.PkgPath)
		// how an object is configured matters to every property stated "for all configurations" of that layer
		tag := "C01,C02,C04,C15"
		if strings.HasPrefix(sp, "strategy") {
			tag = "C04,C05,C06,C14"
		}
		var lines []string
		lines = append(lines, "//@ func "+fi.Decl.Name.Name)
		var paths []string
		for p := range ci.fresh {
			paths = append(paths, p)
		}
		sort.Strings(paths)
		var fr []string
		byType := map[string][]string{}
		for _, p := range paths {
			e := "result"
			if p != "" {
				e = "result." + p
			}
			fr = append(fr, "fresh("+e+")")
			byType[ci.fresh[p]] = append(byType[ci.fresh[p]], e)
		}
		var types_ []string
		for t := range byType {
			types_ = append(types_, t)
		}
		sort.Strings(types_)
		for _, t := range types_ {
			if len(byType[t]) >= 2 {
				fr = append(fr, "distinct("+strings.Join(byType[t], ", ")+")")
			}
		}
		if len(fr) > 0 {
			lines = append(lines, fmt.Sprintf("//@ ensures[%s] \"fresh-and-separate-objects\" %s", tag, strings.Join(fr, " && ")))
		}
		sort.Slice(ci.facts, func(i, j int) bool { return ci.facts[i].path < ci.facts[j].path })
		var fs_ []string
		seen := map[string]bool{}
		for _, f := range ci.facts {
			if seen[f.path] {
				continue
			}
			seen[f.path] = true
			fs_ = append(fs_, fmt.Sprintf("result.%s == %s", f.path, f.expr))
		}
		if len(fs_) > 0 {
			lines = append(lines, fmt.Sprintf("//@ ensures[%s] \"configured-as-given\" %s", tag, strings.Join(fs_, " && ")))
		}
		if len(lines) > 1 {
			byPkg[sp] = append(byPkg[sp], strings.Join(lines, "\n"))
			n++
		}
	}
	for sp, blocks := range byPkg {
		p := filepath.Join(*repo, sp, "zz_contracts_verif.go")
		b, err := os.ReadFile(p)
		if err != nil {
			fmt.Println("skip", sp, err)
			continue
		}
		s := string(b)
		if i := strings.Index(s, ctorBegin); i >= 0 {
			j := strings.Index(s, ctorEnd)
			if j < 0 {
				fmt.Println("unterminated generated block in", p)
				return 1
			}
			s = strings.TrimRight(s[:i], "\n") + "\n" + s[j+len(ctorEnd):]
		}
		s = strings.TrimRight(s, "\n") + "\n\n" + ctorBegin + "\n" +
			"// what each New* function returns, read off its literal: fresh, pairwise separate sub-objects, fields equal to the\n// arguments / constants they are initialised with (transitively through nested constructors); proved, not assumed\n" +
			strings.Join(blocks, "\n\n") + "\n" + ctorEnd + "\n"
		os.WriteFile(p, []byte(s), 0o644)
	}
	fmt.Printf("generated contracts for %d constructors in %d packages\n", n, len(byPkg))
	return 0
}

func isIdentLike(s string) bool {
	if s == "" || s == "true" || s == "false" {
		return false
	}
	c := s[0]
	return c == '_' || (c >= 'a' && c <= 'z') || (c >= 'A' && c <= 'Z')
}

// the struct type T of a constructor returning *T (single result, or (*T, error))
func ctorResultStruct(fi *FuncInfo) types.Type {
	sig := fi.Obj.Type().(*types.Signature)
	if sig.Results().Len() != 1 {
		return nil
	}
	p, ok := sig.Results().At(0).Type().Underlying().(*types.Pointer)
	if !ok {
		return nil
	}
	if _, ok := p.Elem().Underlying().(*types.Struct); !ok {
		return nil
	}
	return p.Elem()
}

// constructors the generator describes: scalar parameters only, and a result struct without interface-typed fields
// (a field of interface type, e.g. a moving average chosen by the caller, would need casts in every clause)
func ctorInSubset(fi *FuncInfo) bool {
	sig := fi.Obj.Type().(*types.Signature)
	for i := 0; i < sig.Params().Len(); i++ {
		t := sig.Params().At(i).Type()
		if _, isTP := t.(*types.TypeParam); isTP {
			continue
		}
		if b, ok := t.Underlying().(*types.Basic); !ok || b.Info()&(types.IsNumeric|types.IsBoolean|types.IsString) == 0 {
			return false
		}
	}
	st, _ := ctorResultStruct(fi).Underlying().(*types.Struct)
	for i := 0; st != nil && i < st.NumFields(); i++ {
		if _, isIface := st.Field(i).Type().Underlying().(*types.Interface); isIface {
			if _, isTP := st.Field(i).Type().(*types.TypeParam); !isTP {
				return false
			}
		}
	}
	return true
}
