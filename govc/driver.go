package main

import (
	"fmt"
	"go/ast"
	"go/types"
	"sort"
	"strings"
)

type FuncReport struct {
	Key    string
	Status string // verified-attempted / out-of-reach / trusted
	Reason string
	Obls   []*Obligation
	Notes  []string
	Tags   []string
}

func newEngine(w *World) *Engine {
	return &Engine{w: w}
}

func (e *Engine) resetFor(fi *FuncInfo) {
	e.fi = fi
	e.frames = []frame{{pkg: fi.Pkg, fi: fi, what: "verify"}}
	e.obls = nil
	e.notes = map[string]bool{}
	e.loopIdx = map[ast.Stmt]*types.Var{}
	e.localRefs = map[string]bool{}
	e.published = map[string]bool{}
	e.modifiesOK = map[string]bool{}
	e.modifiesFld = map[string]bool{}
	e.obCount = map[string]int{}
	e.idTerms = map[string]*Term{}
	e.madeHere = map[string]bool{}
	e.baseNames = map[string]Value{}
	e.selfNames = map[string]Value{}
	e.callRes = map[string][]Value{}
	e.globalErrs = map[string]*Term{}
	e.callArgs = map[string][][]Value{}
	e.dynType = map[string]types.Type{}
	e.ncalledDirty = nil
	e.extraStreams = nil
	e.callN = 0
	e.nfresh = 0
}

// verifyFunc generates all obligations of one function under contract.
func (e *Engine) verifyFunc(fi *FuncInfo) (rep *FuncReport) {
	e.resetFor(fi)
	c := fi.Contract
	rep = &FuncReport{Key: fi.Key, Tags: c.tags()}
	e.curTags = rep.Tags
	e.trackAlloc = false
	for _, cl := range c.Clauses {
		if strings.Contains(cl.Text, "fresh(") {
			e.trackAlloc = true
		}
	}
	defer func() {
		if r := recover(); r != nil {
			if u, ok := r.(unsupported); ok {
				rep.Status = "out-of-reach"
				rep.Reason = u.msg
				rep.Obls = e.obls
				rep.Notes = sortedKeys(e.notes)
				return
			}
			panic(r)
		}
	}()
	st := newState()
	info := fi.Pkg.TypesInfo
	sig := fi.Obj.Type().(*types.Signature)
	e.usedNilChan = false
	e.loopDepth = 0
	e.arrayMode = c.Attrs["streams"] == "arrays"
	if e.arrayMode {
		e.notes["array mode: stream cursors kept in arrays indexed by stream id (symbolic number of channels)"] = true
		for _, k := range []string{"@consumed", "@sent", "@closed", "@nextid"} {
			e.freshCursorArray(st, k)
		}
	}
	// receiver
	if fi.Decl.Recv != nil && len(fi.Decl.Recv.List) > 0 && len(fi.Decl.Recv.List[0].Names) > 0 {
		n := fi.Decl.Recv.List[0].Names[0]
		if obj := info.Defs[n]; obj != nil {
			v := VTerm{T: mkConst(n.Name, SRef), Typ: obj.Type()}
			st.vars[obj] = v
			e.baseNames[n.Name] = v
			e.baseNames["self"] = v
			e.selfNames[n.Name] = v
			e.selfNames["self"] = v
		}
	}
	// parameters
	for _, f := range fi.Decl.Type.Params.List {
		for _, n := range f.Names {
			obj := info.Defs[n]
			if obj == nil {
				continue
			}
			v := e.paramValue(n.Name, obj.Type(), st)
			st.vars[obj] = v
			e.baseNames[n.Name] = v
		}
	}
	// modifies clauses of this function
	for _, cl := range c.byKind("modifies", "") {
		for _, n := range cl.Names {
			env := e.specEnvAt(st, fi.Decl.Body.Lbrace+1)
			if v, ok := env.lookup(n); ok {
				if vt, ok := v.(VTerm); ok {
					e.modifiesOK[vt.T.String()] = true
				}
			} else if sx, err := parseSpec(n); err == nil {
				if vt, ok := e.evalSpec(sx, env).(VTerm); ok && vt.T.Sort == SRef {
					e.modifiesOK[vt.T.String()] = true
				} else if i := strings.LastIndex(n, "."); i > 0 {
					// a single field of an object (modifies c.columns): only that field may be written
					if bx, err := parseSpec(n[:i]); err == nil {
						if bt, ok := e.evalSpec(bx, env).(VTerm); ok && bt.T.Sort == SRef {
							e.modifiesFld[bt.T.String()+"."+n[i+1:]] = true
						}
					}
				}
			}
		}
	}
	// named results
	if fi.Decl.Type.Results != nil {
		for _, f := range fi.Decl.Type.Results.List {
			for _, n := range f.Names {
				if obj := info.Defs[n]; obj != nil {
					st.vars[obj] = e.zeroValue(obj.Type())
				}
			}
		}
	}
	pos := fi.Decl.Body.Lbrace + 1
	for _, cl := range c.byKind("requires", "") {
		st.assume(term(e.evalSpec(cl.Expr, e.specEnvAt(st, pos))))
	}
	e.old = st.clone()
	// vacuity cover for the precondition
	e.obls = append(e.obls, &Obligation{Name: fi.Key + "/cover/requires", Func: fi.Key, Tags: rep.Tags, Hyps: append([]*Term(nil), st.pc...), Goal: tFalse, Kind: "cover", Where: c.Where})

	outs := e.execBlock(fi.Decl.Body.List, st)
	var finals []Out
	for _, o := range outs {
		switch o.kind {
		case fBreak, fContinue:
			unsup("break/continue outside loop")
		}
		finals = append(finals, o)
	}
	finals = e.runDefers(finals)
	// run spawned processes sequentially (Kahn semantics: result = eventual histories)
	var done []Out
	var retSnaps []*State
	for _, o := range finals {
		// heap / ghost / external-effect state as it is when the function returns: effects of goroutines that were
		// not joined (wg.Wait) happen later and are not visible to a caller at return
		var snap *State
		if len(o.st.procs) > 0 {
			snap = o.st.clone()
		}
		for _, d := range e.runProcs(o) {
			done = append(done, d)
			retSnaps = append(retSnaps, snap)
		}
	}
	for i, o := range done {
		if snap := retSnaps[i]; snap != nil {
			vis := o.st.clone()
			for k := range vis.mem {
				if strings.HasPrefix(k, "fld:") || strings.HasPrefix(k, "nexec:") {
					if v, ok := snap.mem[k]; ok {
						vis.mem[k] = v
					} else {
						delete(vis.mem, k)
					}
				}
			}
			for k := range vis.memV {
				if v, ok := snap.memV[k]; ok {
					vis.memV[k] = v
				} else {
					delete(vis.memV, k)
				}
			}
			o.st = vis
		}
		if _, dead := o.st.mem["@exited"]; dead {
			// the path ended in os.Exit: the function does not return on it
			continue
		}
		e.checkExit(fi, o, sig)
		e.obls = append(e.obls, &Obligation{Name: fmt.Sprintf("%s/cover/exit@%d", fi.Key, i+1), Func: fi.Key, Tags: rep.Tags, Hyps: append([]*Term(nil), o.st.pc...), Goal: tFalse, Kind: "cover", Where: c.Where})
	}
	// C09: instances hold configuration only - no write to the receiver, to anything reachable from it, or to
	// package-level state; captured mutable state is confined to one process
	for _, o := range e.obls {
		// a write outside the declared frame is a C09 matter whatever else the function is tagged with
		if strings.HasPrefix(o.Kind, "frame/") && o.Result == "static-fail" && !hasTag(o.Tags, "C09") {
			o.Tags = append(append([]string(nil), o.Tags...), "C09")
		}
	}
	if len(c.byKind("modifies", "")) == 0 {
		frameFail := 0
		for _, o := range e.obls {
			if strings.HasPrefix(o.Kind, "frame/") && o.Result == "static-fail" {
				frameFail++
				o.Tags = append(append([]string(nil), o.Tags...), "C09")
			}
		}
		conf, detail := e.confinement(fi)
		e.obls = append(e.obls, &Obligation{Name: fi.Key + "/frame/nothing-but-locals-written", Func: fi.Key, Tags: []string{"C09"}, Kind: "frame", Static: true, Where: c.Where,
			Result: map[bool]string{true: "static-ok", false: "static-fail"}[frameFail == 0], Goal: mkBool(frameFail == 0), Detail: fmt.Sprintf("%d frame violations", frameFail)})
		e.obls = append(e.obls, &Obligation{Name: fi.Key + "/confinement/captured-state-in-one-process", Func: fi.Key, Tags: []string{"C09"}, Kind: "confinement", Static: true, Where: c.Where,
			Result: map[bool]string{true: "static-ok", false: "static-fail"}[conf], Goal: mkBool(conf), Detail: detail})
	}
	rep.Status = "checked"
	rep.Obls = e.obls
	rep.Notes = sortedKeys(e.notes)
	return rep
}

// every variable assigned inside a function literal (closure passed to a stage, goroutine body) is referenced by no
// other literal and by the enclosing body only before the literal (initialisation)
func (e *Engine) confinement(fi *FuncInfo) (bool, string) {
	info := fi.Pkg.TypesInfo
	for _, lit := range fi.Lits {
		assigned := map[types.Object]bool{}
		mark := func(l ast.Expr) {
			for {
				switch lx := ast.Unparen(l).(type) {
				case *ast.IndexExpr:
					l = lx.X
					continue
				case *ast.Ident:
					if o, ok := info.ObjectOf(lx).(*types.Var); ok && (o.Pos() < lit.Pos() || o.Pos() > lit.End()) && o.Parent() != o.Pkg().Scope() {
						assigned[o] = true
					}
				}
				return
			}
		}
		ast.Inspect(lit.Body, func(n ast.Node) bool {
			switch x := n.(type) {
			case *ast.AssignStmt:
				for _, l := range x.Lhs {
					mark(l)
				}
			case *ast.IncDecStmt:
				mark(x.X)
			}
			return true
		})
		if len(assigned) == 0 {
			continue
		}
		bad := ""
		ast.Inspect(fi.Decl.Body, func(n ast.Node) bool {
			id, ok := n.(*ast.Ident)
			if !ok {
				return true
			}
			o := info.ObjectOf(id)
			if o == nil || !assigned[o] {
				return true
			}
			if id.Pos() >= lit.Pos() && id.Pos() <= lit.End() {
				return true // inside the owning literal
			}
			if id.Pos() > lit.End() {
				bad = fmt.Sprintf("%s is written by a function literal and also used after it at %s", o.Name(), e.src(id))
			}
			for _, other := range fi.Lits {
				if other != lit && id.Pos() >= other.Pos() && id.Pos() <= other.End() && !(lit.Pos() >= other.Pos() && lit.End() <= other.End()) {
					bad = fmt.Sprintf("%s is written by one function literal and used by another at %s", o.Name(), e.src(id))
				}
			}
			return true
		})
		if bad != "" {
			return false, bad
		}
	}
	return true, ""
}

func (e *Engine) paramValue(name string, t types.Type, st *State) Value {
	if a, ok := t.(*types.Alias); ok {
		t = types.Unalias(a)
	}
	switch u := t.Underlying().(type) {
	case *types.Chan:
		id := mkConst(name, SInt)
		e.idTerms[id.String()] = id
		st.assume(mkCmp(">=", e.slen(id), mkInt(0)))
		if u.Dir() != types.SendOnly {
			c0 := mkConst(name+".consumed0", SInt)
			if !e.arrayMode {
				st.mem["consumed:"+id.String()] = c0
				st.assume(mkAnd(mkCmp("<=", mkInt(0), c0), mkCmp("<=", c0, e.slen(id))))
				if u.Dir() == types.RecvOnly {
					st.mem["closed:"+id.String()] = tTrue // input histories are finite: the producer closes eventually
				}
			} else {
				st.assume(mkCmp("<", id, st.mem["@nextid"]))
			}
		}
		if u.Dir() != types.RecvOnly {
			s0 := mkConst(name+".sent0", SInt)
			if !e.arrayMode {
				st.mem["sent:"+id.String()] = s0
				st.assume(mkCmp("<=", mkInt(0), s0))
				st.mem["closed:"+id.String()] = mkConst(name+".closed0", SBool)
			}
		}
		return VStream{ID: id, Elem: u.Elem()}
	case *types.Slice:
		es := e.elemSort(u.Elem())
		ln := mkConst(name+".len", SInt)
		st.assume(mkCmp(">=", ln, mkInt(0)))
		arr := mkConst(name+".arr", arraySort(SInt, es))
		if e.arrayMode && isChan(u.Elem()) {
			e.nfresh++
			b := mkVar(fmt.Sprintf("j$%d", e.nfresh), SInt)
			st.assume(mkForall([]*Term{b}, mkImplies(mkAnd(mkCmp("<=", mkInt(0), b), mkCmp("<", b, ln)), mkAnd(mkCmp("<", mkSelect(arr, b), st.mem["@nextid"]), mkCmp(">=", mkApp("slen", SInt, mkSelect(arr, b)), mkInt(0)))), [][]*Term{{mkSelect(arr, b)}}))
		}
		return VSlice{Arr: arr, Len: ln, Elem: u.Elem()}
	case *types.Signature:
		return VFunc{ID: mkConst(name, SInt), Sig: u}
	}
	return VTerm{T: mkConst(name, e.sortOf(t)), Typ: t}
}

// run queued go statements of an outcome
func (e *Engine) runProcs(o Out) []Out {
	cur := []Out{o}
	for len(cur) > 0 {
		// all outcomes share the same queue prefix structure; process the first pending proc of each
		progressed := false
		var next []Out
		for _, c := range cur {
			if len(c.st.procs) == 0 {
				next = append(next, c)
				continue
			}
			progressed = true
			g := c.st.procs[0]
			c.st.procs = c.st.procs[1:]
			for _, po := range e.runProc(g, c.st) {
				next = append(next, Out{st: po.st, kind: c.kind, ret: c.ret})
			}
		}
		cur = next
		if !progressed {
			break
		}
		if len(cur) > 512 {
			unsup("path explosion in processes")
		}
	}
	return cur
}

func (e *Engine) runProc(g *ast.GoStmt, st *State) []Out {
	saved := st.defers
	st.defers = nil
	var outs []Out
	if lit, ok := ast.Unparen(g.Call.Fun).(*ast.FuncLit); ok {
		if len(g.Call.Args) > 0 {
			unsup("go func literal with arguments at %s", e.src(g))
		}
		outs = e.execBlock(lit.Body.List, st)
		for i := range outs {
			if outs[i].kind == fBreak || outs[i].kind == fContinue {
				unsup("break/continue escaping goroutine")
			}
		}
		outs = e.runDefers(outs)
	} else {
		e.eval(g.Call, st)
		outs = []Out{{st: st}}
	}
	for i := range outs {
		outs[i].kind = fNormal
		outs[i].st.defers = saved
	}
	return outs
}

func (e *Engine) checkExit(fi *FuncInfo, o Out, sig *types.Signature) {
	c := fi.Contract
	st := o.st
	pos := fi.Decl.Body.Lbrace + 1
	env := e.specEnvAt(st, pos)
	names := map[string]Value{}
	for k, v := range e.baseNames {
		names[k] = v
	}
	if o.kind == fReturn {
		for i := range o.ret {
			if i < sig.Results().Len() {
				o.ret[i] = e.coerceNil(o.ret[i], sig.Results().At(i).Type())
			}
		}
		if len(o.ret) == 1 {
			names["result"] = o.ret[0]
		}
		for i, r := range o.ret {
			names[fmt.Sprintf("result%d", i)] = r
		}
	} else if fi.Decl.Type.Results != nil && len(fi.Decl.Type.Results.List) > 0 {
		// named results without explicit return values
		i := 0
		info := fi.Pkg.TypesInfo
		for _, f := range fi.Decl.Type.Results.List {
			for _, n := range f.Names {
				if obj := info.Defs[n]; obj != nil {
					names[fmt.Sprintf("result%d", i)] = st.vars[obj]
					if sig.Results().Len() == 1 {
						names["result"] = st.vars[obj]
					}
				}
				i++
			}
		}
	}
	env.names = names
	env.pos = fi.Decl.Body.Rbrace
	// proof script of the exit: lemma applications and intermediate steps, in textual order. A step is an
	// obligation like any other; once stated it may be relied on by what follows (assert, then assume).
	nstep := 0
	for _, cl := range c.Clauses {
		if cl.Scope != "" {
			continue
		}
		switch cl.Kind {
		case "use":
			e.useLemma(cl.Expr, env, st, cl.Where, hasTag(cl.Tags, "cond"))
		case "step":
			label := fmt.Sprintf("step#%d", nstep)
			if cl.Label != "" {
				label = "step/" + cl.Label
			}
			nstep++
			t := term(e.evalSpec(cl.Expr, env))
			e.assert(st, t, label, cl.Where, cl.Tags)
			st.assume(t)
		}
	}
	// parameters keep their entry values in specs (Go parameters are mutable; contracts talk about entry values)
	for _, kind := range []string{"ensures", "offers", "guarantees"} {
		for j, cl := range c.byKind(kind, "") {
			label := fmt.Sprintf("%s#%d", kind, j)
			if cl.Label != "" {
				label = kind + "/" + cl.Label
			}
			t := term(e.evalSpec(cl.Expr, env))
			e.assert(st, t, label, cl.Where, cl.Tags)
		}
	}
	// ownership: every stream whose read end this function holds must be handed over, returned or drained
	returned := map[string]bool{}
	var markRet func(v Value)
	markRet = func(v Value) {
		switch x := v.(type) {
		case VStream:
			returned[x.ID.String()] = true
		case VSlice:
			if isChan(x.Elem) && x.Len.Op == "int" && x.Len.Int.IsInt64() && x.Len.Int.Int64() <= 16 {
				for k := int64(0); k < x.Len.Int.Int64(); k++ {
					returned[mkSelect(x.Arr, mkInt(k)).String()] = true
				}
			}
		case VTuple:
			for _, y := range x {
				markRet(y)
			}
		}
	}
	for _, r := range o.ret {
		markRet(r)
	}
	var owned []string
	for id := range st.owned {
		owned = append(owned, id)
	}
	sort.Strings(owned)
	for _, id := range owned {
		if st.moved[id] || returned[id] {
			continue
		}
		idt := e.idTerms[id]
		if idt == nil {
			continue
		}
		e.assert(st, mkEq(e.consumed(st, idt), e.slen(idt)), "ownership/drained:"+strings.SplitN(id, "!", 2)[0], st.owned[id], []string{"C03"})
	}
}

// C04 ghost: the value sent as element n can depend only on what this process has received so far
func (e *Engine) onSend(st *State, ch VStream, n *Term, where string) {
	bound := mkInt(-1)
	for _, ids := range sortedKeys(st.readSet) {
		id := e.idTerms[ids]
		if id == nil {
			continue
		}
		bound = mkMax(bound, mkApp("hor", SInt, id, mkArith("-", e.consumed(st, id), mkInt(1))))
	}
	for _, f := range st.readFam {
		// the element whose last value read has the largest horizon (exists for a non-empty family)
		jw := e.fresh("jmax", SInt)
		el := mkSelect(f.arr, jw)
		top := mkApp("hor", SInt, el, mkArith("-", e.consumed(st, el), mkInt(1)))
		e.nfresh++
		j := mkVar(fmt.Sprintf("j$%d", e.nfresh), SInt)
		ej := mkSelect(f.arr, j)
		st.assume(mkImplies(mkCmp(">=", f.ln, mkInt(1)), mkAnd(mkCmp("<=", mkInt(0), jw), mkCmp("<", jw, f.ln),
			mkForall([]*Term{j}, mkImplies(mkAnd(mkCmp("<=", mkInt(0), j), mkCmp("<", j, f.ln)), mkCmp("<=", mkApp("hor", SInt, ej, mkArith("-", e.consumed(st, ej), mkInt(1))), top)), [][]*Term{{mkSelect(f.arr, j)}}))))
		bound = mkMax(bound, mkIte(mkCmp(">=", f.ln, mkInt(1)), top, mkInt(-1)))
	}
	st.assume(mkCmp("<=", mkApp("hor", SInt, ch.ID, n), bound))
}
