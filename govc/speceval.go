package main

import (
	"fmt"
	"go/token"
	"go/types"
	"math/big"
	"strings"
)

type Macro struct {
	Name   string
	Params []string
	Body   *SExpr
	Pkg    string
}

type SpecEnv struct {
	e        *Engine
	st       *State
	old      *State
	names    map[string]Value
	pos      token.Pos // for scope lookups in the current frame's package
	tpkg     *types.Package
	scopePkg *types.Package
	bound    map[string]*Term
	noScope  bool
	calleeFn *types.Func
	// relational verification: the two runs; other is the environment of the second run (second(e))
	rel1, rel2 *relRun
	other      *SpecEnv
}

func (env *SpecEnv) with(name string, v Value) *SpecEnv {
	n := *env
	n.names = map[string]Value{}
	for k, x := range env.names {
		n.names[k] = x
	}
	n.names[name] = v
	return &n
}

func (env *SpecEnv) inState(st *State) *SpecEnv {
	n := *env
	n.st = st
	return &n
}

// environment for clauses of the function under verification evaluated at program point pos
func (e *Engine) specEnvAt(st *State, pos token.Pos) *SpecEnv {
	return &SpecEnv{e: e, st: st, old: e.old, names: e.selfNames, pos: pos, tpkg: e.pkg().Types}
}

func (env *SpecEnv) lookup(name string) (Value, bool) {
	if v, ok := env.names[name]; ok {
		return v, true
	}
	e := env.e
	if !env.noScope && env.tpkg != nil && env.pos != token.NoPos {
		sc := env.tpkg.Scope().Innermost(env.pos)
		if sc != nil {
			if _, obj := sc.LookupParent(name, env.pos); obj != nil {
				switch o := obj.(type) {
				case *types.Var:
					if v, ok := env.st.vars[o]; ok {
						return v, true
					}
					if o.Parent() == o.Pkg().Scope() {
						return e.globalVar(o), true
					}
				case *types.Const:
					if v, ok := constTerm(o.Val(), o.Type(), e); ok {
						return v, true
					}
				}
			}
		}
	}
	// hidden loop indexes idxN
	if strings.HasPrefix(name, "idx") {
		for _, iv := range e.loopIdx {
			if iv.Name() == name {
				if v, ok := env.st.vars[iv]; ok {
					return v, true
				}
			}
		}
	}
	// package-level constants of the spec's package
	if env.tpkg != nil {
		if obj := env.tpkg.Scope().Lookup(name); obj != nil {
			switch o := obj.(type) {
			case *types.Const:
				if v, ok := constTerm(o.Val(), o.Type(), e); ok {
					return v, true
				}
			case *types.Var:
				return e.globalVar(o), true
			}
		}
	}
	return nil, false
}

func (e *Engine) evalSpec(x *SExpr, env *SpecEnv) Value {
	boolT := types.Typ[types.Bool]
	intT := types.Typ[types.Int]
	switch x.Kind {
	case "int":
		bi, _ := new(big.Int).SetString(x.Val, 10)
		return VTerm{T: mkBigInt(bi), Typ: intT}
	case "float":
		r, _ := new(big.Rat).SetString(x.Val)
		return VTerm{T: mkRat(r), Typ: types.Typ[types.Float64]}
	case "str":
		return VTerm{T: mkConst("str_"+sanitize(x.Val), SStr), Typ: types.Typ[types.String]}
	case "ident":
		switch x.Val {
		case "true":
			return VTerm{T: tTrue, Typ: boolT}
		case "false":
			return VTerm{T: tFalse, Typ: boolT}
		case "nil":
			return VTerm{T: mkConst("nil", SRef), Typ: types.Typ[types.UntypedNil]}
		case "nextid":
			if n, ok := env.st.mem["@nextid"]; ok {
				return VTerm{T: n, Typ: intT}
			}
		}
		if b, ok := env.bound[x.Val]; ok {
			switch b.Sort {
			case SStr:
				return VTerm{T: b, Typ: types.Typ[types.String]}
			case SReal:
				return VTerm{T: b, Typ: types.Typ[types.Float64]}
			}
			return VTerm{T: b, Typ: intT}
		}
		if v, ok := env.lookup(x.Val); ok {
			return v
		}
		if x.Val == "csvfs" {
			// the ghost file system of CSV snapshot files: view(csvfs) maps a file name to the rows the file holds
			return VTerm{T: mkConst("csvfs", SRef), Typ: types.NewInterfaceType(nil, nil)}
		}
		unsup("spec: unknown identifier %q", x.Val)
	case "unary":
		a := term(e.evalSpec(x.Args[0], env))
		if x.Val == "!" {
			return VTerm{T: mkNot(a), Typ: boolT}
		}
		return VTerm{T: mkNeg(a), Typ: intT}
	case "binary":
		if x.Val == "==>" {
			a := term(e.evalSpec(x.Args[0], env))
			if isFalse(a) {
				return VTerm{T: tTrue, Typ: boolT}
			}
			b := term(e.evalSpec(x.Args[1], env))
			return VTerm{T: mkImplies(a, b), Typ: boolT}
		}
		av := e.evalSpec(x.Args[0], env)
		bv := e.evalSpec(x.Args[1], env)
		a, b := term(av), term(bv)
		switch x.Val {
		case "<==>":
			return VTerm{T: mkEq(a, b), Typ: boolT}
		case "&&":
			return VTerm{T: mkAnd(a, b), Typ: boolT}
		case "||":
			return VTerm{T: mkOr(a, b), Typ: boolT}
		case "==":
			return VTerm{T: mkEq(a, b), Typ: boolT}
		case "!=":
			return VTerm{T: mkNot(mkEq(a, b)), Typ: boolT}
		case "<", "<=", ">", ">=":
			return VTerm{T: mkCmp(x.Val, a, b), Typ: boolT}
		case "+", "-", "*":
			return VTerm{T: mkArith(x.Val, a, b), Typ: resType(av, bv)}
		case "/":
			a, b = numUnify(a, b)
			if a.Sort == SInt {
				return VTerm{T: mkIntDiv(a, b), Typ: intT} // spec-level: floor division on non-negatives
			}
			return VTerm{T: mkArith("/", a, b), Typ: resType(av, bv)}
		case "%":
			return VTerm{T: mkIntMod(a, b), Typ: intT}
		}
	case "cond":
		c := term(e.evalSpec(x.Args[0], env))
		if isTrue(c) {
			return e.evalSpec(x.Args[1], env)
		}
		if isFalse(c) {
			return e.evalSpec(x.Args[2], env)
		}
		av := e.evalSpec(x.Args[1], env)
		bv := e.evalSpec(x.Args[2], env)
		return VTerm{T: mkIte(c, term(av), term(bv)), Typ: resType(av, bv)}
	case "old":
		if env.old == nil {
			unsup("spec: old() without pre-state")
		}
		return e.evalSpec(x.Args[0], env.inState(env.old))
	case "forall", "exists":
		n := *env
		n.bound = map[string]*Term{}
		for k, v := range env.bound {
			n.bound[k] = v
		}
		var bvs []*Term
		for _, v := range x.Vars {
			e.nfresh++
			srt := SInt
			if i := strings.Index(v, ":"); i >= 0 {
				switch v[i+1:] {
				case "str":
					srt = SStr
				case "real":
					srt = SReal
				case "ref":
					srt = SRef
				}
				v = v[:i]
			}
			bv := mkVar(fmt.Sprintf("%s$%d", v, e.nfresh), srt)
			n.bound[v] = bv
			bvs = append(bvs, bv)
		}
		body := term(e.evalSpec(x.Args[0], &n))
		// expand small literal ranges: forall i :: 0 <= i && i < N ==> B  with literal N
		if x.Kind == "forall" && len(bvs) == 1 {
			if ex, ok := expandBounded(bvs[0], body); ok {
				return VTerm{T: ex, Typ: boolT}
			}
		}
		if x.Kind == "forall" {
			return VTerm{T: mkForall(bvs, body, e.patternsMulti(bvs, body)), Typ: boolT}
		}
		return VTerm{T: mkExists(bvs, body), Typ: boolT}
	case "index":
		base := e.evalSpec(x.Args[0], env)
		idx := term(e.evalSpec(x.Args[1], env))
		switch b := base.(type) {
		case VStream:
			return e.sel(b, idx)
		case VSlice:
			return e.sliceElem(b, idx)
		case VMap:
			v, _ := e.mapGet(b, idx)
			return v
		}
		unsup("spec: index of %T in %s", base, x)
	case "field":
		base := e.evalSpec(x.Args[0], env)
		switch b := base.(type) {
		case VElem:
			return e.elemField(b, x.Val)
		case VTerm:
			if b.T.Sort == SRef {
				return e.readField(env.st, b, x.Val)
			}
		case VFunc:
			if x.Val == "ncalls" {
				return VTerm{T: e.ncalls(env.st, b.ID), Typ: intT}
			}
		}
		unsup("spec: field %s of %T in %s", x.Val, base, x)
	case "call":
		return e.evalSpecCall(x, env)
	}
	unsup("spec: cannot evaluate %s", x)
	return nil
}

func resType(a, b Value) types.Type {
	at, aok := a.(VTerm)
	bt, bok := b.(VTerm)
	if aok && bok {
		if at.T.Sort == SReal {
			return at.Typ
		}
		if bt.T.Sort == SReal {
			return bt.Typ
		}
		return at.Typ
	}
	if aok {
		return at.Typ
	}
	return types.Typ[types.Int]
}

// forall i :: (lo <= i && i < hi) ==> B with literal lo, hi (small) => conjunction
func expandBounded(bv *Term, body *Term) (*Term, bool) {
	if body.Op != "=>" {
		return nil, false
	}
	guard := flattenAnd(body.Args[0])
	var lo, hi *big.Int
	rest := []*Term{}
	for _, g := range guard {
		matched := false
		if len(g.Args) == 2 {
			a, b := g.Args[0], g.Args[1]
			switch {
			case g.Op == "<=" && a.Op == "int" && b == bv:
				lo = a.Int
				matched = true
			case g.Op == "<" && a == bv && b.Op == "int":
				hi = b.Int
				matched = true
			case g.Op == ">=" && a == bv && b.Op == "int":
				lo = b.Int
				matched = true
			}
		}
		if !matched {
			rest = append(rest, g)
		}
	}
	if lo == nil || hi == nil {
		return nil, false
	}
	n := new(big.Int).Sub(hi, lo)
	if !n.IsInt64() || n.Int64() > 8 {
		return nil, false
	}
	var conj []*Term
	for i := lo.Int64(); i < hi.Int64(); i++ {
		m := map[string]*Term{bv.Name: mkInt(i)}
		conj = append(conj, subst(mkImplies(mkAnd(rest...), body.Args[1]), m))
	}
	return mkAnd(conj...), true
}

// choose trigger patterns: applications (sel_*, fnret_*, fnarg*, prelude functions, select) that contain all bound vars
func (e *Engine) patternsFor(bvs []*Term, body *Term) [][]*Term {
	if len(bvs) != 1 {
		return nil
	}
	bv := bvs[0]
	seen := map[string]bool{}
	var cands []*Term
	var walk func(t *Term, underQ bool)
	contains := func(t *Term) bool {
		found := false
		var w func(t *Term)
		w = func(t *Term) {
			if t == bv {
				found = true
			}
			for _, a := range t.Args {
				w(a)
			}
		}
		w(t)
		return found
	}
	var hasArith func(t *Term) bool
	hasArith = func(t *Term) bool { // boolean structure / ite are not allowed inside patterns
		switch t.Op {
		case "ite", "and", "or", "not", "=>", "=", "<", "<=", ">", ">=":
			return true
		}
		for _, a := range t.Args {
			if hasArith(a) {
				return true
			}
		}
		return false
	}
	walk = func(t *Term, underQ bool) {
		if t.Op == "forall" || t.Op == "exists" {
			return
		}
		if (t.Op == "app" || t.Op == "select") && contains(t) && !hasArith(t) {
			// prefer maximal? take all candidate apps whose args contain bv directly
			direct := false
			for _, a := range t.Args {
				if a == bv {
					direct = true
				}
			}
			if direct && !seen[t.String()] {
				seen[t.String()] = true
				cands = append(cands, t)
			}
		}
		for _, a := range t.Args {
			walk(a, underQ)
		}
	}
	walk(body, false)
	if len(cands) == 0 {
		return nil
	}
	var pats [][]*Term
	for _, c := range cands {
		pats = append(pats, []*Term{c})
	}
	return pats
}

// patterns for several bound variables: one multi-pattern made of applications that together cover all of them
func (e *Engine) patternsMulti(bvs []*Term, body *Term) [][]*Term {
	if len(bvs) == 1 {
		return e.patternsFor(bvs, body)
	}
	var pat []*Term
	covered := map[*Term]bool{}
	var walk func(t *Term)
	walk = func(t *Term) {
		if t.Op == "forall" || t.Op == "exists" {
			return
		}
		if t.Op == "app" {
			newCover := false
			for _, a := range t.Args {
				for _, b := range bvs {
					if a == b && !covered[b] {
						newCover = true
					}
				}
			}
			if newCover {
				for _, a := range t.Args {
					for _, b := range bvs {
						if a == b {
							covered[b] = true
						}
					}
				}
				pat = append(pat, t)
			}
		}
		for _, a := range t.Args {
			walk(a)
		}
	}
	walk(body)
	if len(covered) != len(bvs) {
		return nil
	}
	return [][]*Term{pat}
}

func (e *Engine) evalSpecCall(x *SExpr, env *SpecEnv) Value {
	intT := types.Typ[types.Int]
	boolT := types.Typ[types.Bool]
	fn := x.Args[0]
	args := x.Args[1:]
	// method-like forms on function values: o.ret(k), o.arg0(k)
	if fn.Kind == "field" {
		base := e.evalSpec(fn.Args[0], env)
		if fv, ok := base.(VFunc); ok {
			k := term(e.evalSpec(args[0], env))
			switch {
			case fn.Val == "ret":
				return e.fnRet(fv, k)
			case strings.HasPrefix(fn.Val, "arg"):
				return e.fnArg(fv, atoi(strings.TrimPrefix(fn.Val, "arg")), k)
			}
		}
		// pure Go method on a receiver (e.g. m.IdlePeriod()): inlined
		if bt, ok := base.(VTerm); ok && bt.T.Sort == SRef {
			if dt, ok := e.dynType[bt.T.String()]; ok {
				bt = VTerm{T: bt.T, Typ: dt}
			}
			obj, _, _ := types.LookupFieldOrMethod(bt.Typ, true, nil, fn.Val)
			if obj == nil {
				if p, ok := bt.Typ.(*types.Pointer); ok {
					obj, _, _ = types.LookupFieldOrMethod(p.Elem(), true, nil, fn.Val)
				}
			}
			if m, ok := obj.(*types.Func); ok {
				if msig := m.Type().(*types.Signature); msig.Recv() != nil {
					if _, isIface := msig.Recv().Type().Underlying().(*types.Interface); isIface {
						// pure interface method: deterministic uninterpreted function of the receiver, constrained by the interface contract
						iname := "?"
						if nn, ok := msig.Recv().Type().(*types.Named); ok {
							iname = nn.Obj().Name()
						}
						ck := shortPkg(m.Pkg().Path()) + "." + iname + "." + m.Name()
						ic := e.w.IfaceContracts[ck]
						if ic == nil || !ic.Pure {
							unsup("spec: no pure interface contract for %s", ck)
						}
						rt := msig.Results().At(0).Type()
						as := []*Term{bt.T}
						for _, a := range args {
							as = append(as, term(e.evalSpec(a, env)))
						}
						r := e.wrap(mkApp("pure_"+sanitize(ic.Pkg+"_"+iname+"."+m.Name()), e.sortOf(rt), as...), rt)
						names := map[string]Value{"self": bt, "result": r}
						for _, cl := range ic.byKind("ensures", "") {
							env.st.assume(term(e.evalSpec(cl.Expr, &SpecEnv{e: e, st: env.st, names: names, noScope: true, tpkg: m.Pkg()})))
						}
						return r
					}
				}
				fi := e.w.Funcs[e.w.keyOf(m)]
				if fi == nil || !e.inlineable(fi) {
					unsup("spec: method %s is not an inlineable pure function", fn.Val)
				}
				var as []Value
				for _, a := range args {
					as = append(as, e.evalSpec(a, env))
				}
				tmp := env.st.clone()
				nob := len(e.obls)
				v := e.inlineFunc(fi, bt, as, tmp)
				e.obls = e.obls[:nob]
				return v
			}
		}
		unsup("spec: method call %s", x)
	}
	if fn.Kind != "ident" {
		unsup("spec: call of %s", fn)
	}
	name := fn.Val
	evalArgs := func() []Value {
		var vs []Value
		for _, a := range args {
			vs = append(vs, e.evalSpec(a, env))
		}
		return vs
	}
	switch name {
	case "len":
		v := e.evalSpec(args[0], env)
		switch b := v.(type) {
		case VStream:
			return VTerm{T: e.slen(b.ID), Typ: intT}
		case VSlice:
			return VTerm{T: b.Len, Typ: intT}
		case VMap:
			return VTerm{T: mkApp("mapcard_"+sortTag(b.Has.Sort.key()), SInt, b.Has), Typ: intT}
		}
		unsup("spec: len of %T", v)
	case "consumed", "sent", "closed":
		v := e.evalSpec(args[0], env)
		s, ok := v.(VStream)
		if !ok {
			unsup("spec: %s of %T", name, v)
		}
		switch name {
		case "consumed":
			return VTerm{T: e.consumed(env.st, s.ID), Typ: intT}
		case "sent":
			return VTerm{T: e.sent(env.st, s.ID), Typ: intT}
		default:
			return VTerm{T: e.closed(env.st, s.ID), Typ: boolT}
		}
	case "col", "colnum", "colstr":
		// the value stream behind a report column object
		v := e.evalSpec(args[0], env)
		vt, ok := v.(VTerm)
		if !ok || vt.T.Sort != SRef {
			unsup("spec: %s of %T", name, v)
		}
		var el types.Type = types.Typ[types.Float64]
		if name == "colstr" {
			el = types.Typ[types.String]
		}
		// colstream(x) is by definition the `values` field of the column object; where the concrete type is known
		// (inside the constructors) the field itself is read
		if dt, ok := e.dynType[vt.T.String()]; ok {
			if fv, ok2 := e.readField(env.st, VTerm{T: vt.T, Typ: dt}, "values").(VStream); ok2 {
				return VStream{ID: fv.ID, Elem: el}
			}
		}
		return VStream{ID: mkApp("colstream", SInt, vt.T), Elem: el}
	case "arg":
		// arg(Callee_Name, i, j): j-th argument of the i-th contract call of that callee
		if args[0].Kind != "ident" || len(args) != 3 {
			unsup("spec: arg(Callee, i, j)")
		}
		as := e.callArgs[args[0].Val]
		i, j := atoi(args[1].Val), atoi(args[2].Val)
		if i >= len(as) || j >= len(as[i]) {
			unsup("spec: arg(%s,%d,%d): no such call", args[0].Val, i, j)
		}
		return as[i][j]
	case "sconcat":
		// string concatenation (uninterpreted; strings.TrimSuffix is characterised through it)
		vs := evalArgs()
		return VTerm{T: mkApp("str_concat", SStr, term(vs[0]), term(vs[1])), Typ: types.Typ[types.String]}
	case "fresh":
		// fresh(x): x was allocated during the call (its allocation number lies between the counter before and after)
		if !e.trackAlloc {
			return VTerm{T: tTrue, Typ: boolT}
		}
		x := term(e.evalSpec(args[0], env))
		var lo *Term
		if env.old != nil {
			lo = e.allocCounter(env.old)
		} else {
			lo = mkConst("alloc0", SInt)
		}
		id := mkApp("alloc_id", SInt, x)
		return VTerm{T: mkAnd(mkNot(mkEq(x, mkConst("nil", SRef))), mkCmp("<=", lo, id), mkCmp("<", id, e.allocCounter(env.st))), Typ: boolT}
	case "distinct":
		vs := evalArgs()
		var cs []*Term
		for i := range vs {
			for j := i + 1; j < len(vs); j++ {
				cs = append(cs, mkNot(mkEq(term(vs[i]), term(vs[j]))))
			}
		}
		return VTerm{T: mkAnd(cs...), Typ: boolT}
	case "sqlrs":
		// sqlrs(stmt, args...): the result set of running the prepared statement with those arguments
		vs := evalArgs()
		ts := []*Term{term(vs[0])}
		nm := "sql_rs"
		for _, v := range vs[1:] {
			ts = append(ts, term(v))
			nm += "_" + sortTag(term(v).Sort)
		}
		return VTerm{T: mkApp(nm, SRef, ts...), Typ: types.NewInterfaceType(nil, nil)}
	case "sqlnrows":
		return VTerm{T: mkApp("sql_nrows", SInt, term(e.evalSpec(args[0], env))), Typ: intT}
	case "sqlcolI", "sqlcolR", "sqlcolS":
		vs := evalArgs()
		so, ty := SInt, types.Type(intT)
		switch name {
		case "sqlcolR":
			so, ty = SReal, types.Typ[types.Float64]
		case "sqlcolS":
			so, ty = SStr, types.Typ[types.String]
		}
		return VTerm{T: mkApp("sql_col_"+sortTag(so), so, term(vs[0]), term(vs[1]), term(vs[2])), Typ: ty}
	case "sqlscanok":
		vs := evalArgs()
		return VTerm{T: mkEq(mkApp("sql_scanerr", SRef, term(vs[0]), term(vs[1])), mkConst("nil", SRef)), Typ: boolT}
	case "sqlcur":
		v := e.evalSpec(args[0], env).(VTerm)
		return VTerm{T: env.st.getMem("sqlcur:"+v.T.String(), mkApp("sql_cur0", SInt, v.T)), Typ: intT}
	case "csvdir":
		// csvdir(M, base): the map asset name -> rows obtained from the ghost csv file system M by looking up the file
		// <base>/<name>.csv (abstraction function of FileSystemRepository). Defining axioms are assumed per use; file
		// names are taken to be plain (path_join injective in the file name, concatenation injective in its prefix) and
		// a file that does not exist holds no rows
		m, ok := e.evalSpec(args[0], env).(VMap)
		if !ok || m.Len == nil {
			unsup("spec: csvdir expects the ghost csv file system view")
		}
		base := term(e.evalSpec(args[1], env))
		r := VMap{Has: mkApp("csvdir_has", m.Has.Sort, m.Has, base), Val: mkApp("csvdir_val", m.Val.Sort, m.Val, base), Len: mkApp("csvdir_len", m.Len.Sort, m.Len, base), Key: m.Key, Elem: m.Elem}
		e.nfresh++
		n := mkVar(fmt.Sprintf("n$%d", e.nfresh), SStr)
		x := mkVar(fmt.Sprintf("x$%d", e.nfresh), SStr)
		csv := mkConst("str_"+sanitize(".csv"), SStr)
		file := mkApp("str_concat", SStr, n, csv)
		path := mkApp("path_join", SStr, base, file)
		st := env.st
		st.assume(mkForall([]*Term{n}, mkEq(mkSelect(r.Has, n), mkSelect(m.Has, path)), [][]*Term{{mkSelect(r.Has, n)}}))
		st.assume(mkForall([]*Term{n}, mkEq(mkSelect(r.Val, n), mkSelect(m.Val, path)), [][]*Term{{mkSelect(r.Val, n)}}))
		st.assume(mkForall([]*Term{n}, mkEq(mkSelect(r.Len, n), mkSelect(m.Len, path)), [][]*Term{{mkSelect(r.Len, n)}}))
		st.assume(mkForall([]*Term{n}, mkEq(mkApp("str_prefix_of", SStr, file, csv), n), [][]*Term{{file}}))
		st.assume(mkForall([]*Term{x}, mkEq(mkApp("path_file", SStr, mkApp("path_join", SStr, base, x)), x), [][]*Term{{mkApp("path_join", SStr, base, x)}}))
		st.assume(mkForall([]*Term{x}, mkImplies(mkNot(mkSelect(m.Has, x)), mkEq(mkSelect(m.Len, x), mkInt(0))), [][]*Term{{mkSelect(m.Len, x)}}))
		e.notes["assumed: asset names are plain file names (path_join(base, .) and (. + \".csv\") injective); a csv file that does not exist holds no rows"] = true
		return r
	case "pathjoin":
		vs := evalArgs()
		return VTerm{T: mkApp("path_join", SStr, term(vs[0]), term(vs[1])), Typ: types.Typ[types.String]}
	case "direntry":
		// ghost: the directory named by the first argument has an entry with that file name (os.ReadDir)
		vs := evalArgs()
		return VTerm{T: mkApp("fs_direntry", SBool, term(vs[0]), term(vs[1])), Typ: boolT}
	case "ncalled":
		// ncalled(Callee_Name): how many times the path under consideration has called that callee (through its contract)
		if len(args) != 1 || args[0].Kind != "ident" {
			unsup("spec: ncalled expects a callee name")
		}
		if e.ncalledDirty["ncalled:"+args[0].Val] {
			return VTerm{T: e.fresh("ncalled_unknown", SInt), Typ: intT}
		}
		return VTerm{T: env.st.getMem("ncalled:"+args[0].Val, mkInt(0)), Typ: intT}
	case "res":
		// res(Callee_Name[, i[, j]]): result of the i-th contract call of that callee in the function under verification
		if args[0].Kind != "ident" {
			unsup("spec: res expects a callee name")
		}
		rs := e.callRes[args[0].Val]
		i := 0
		if len(args) > 1 {
			i = atoi(args[1].Val)
		}
		if i >= len(rs) {
			unsup("spec: res(%s,%d): no such call", args[0].Val, i)
		}
		r := rs[i]
		if len(args) > 2 {
			r = r.(VTuple)[atoi(args[2].Val)]
		}
		return r
	case "jsonelem":
		// jsonelem(c, r, k): the k-th value of the JSON array read from r, decoded into a zero value of c's element type
		c, ok := e.evalSpec(args[0], env).(VStream)
		if !ok {
			unsup("spec: jsonelem of a non-stream")
		}
		es := e.elemSort(c.Elem)
		return VTerm{T: mkApp("jsonelem_"+sortTag(es), es, term(e.evalSpec(args[1], env)), term(e.evalSpec(args[2], env))), Typ: c.Elem}
	case "extrem", "csvfpr", "ftrunc", "fappend", "jsoncnt":
		// ghost counters / flags of standard-library objects (remaining input, csv field count, open flags)
		v := e.evalSpec(args[0], env)
		vt, ok := v.(VTerm)
		if !ok {
			unsup("spec: %s of %T", name, v)
		}
		return VTerm{T: env.st.getMem(name+":"+vt.T.String(), mkApp(name+"0", SInt, vt.T)), Typ: intT}
	case "nev":
		v := e.evalSpec(args[0], env)
		vt, ok := v.(VTerm)
		if !ok {
			unsup("spec: nev of %T", v)
		}
		return VTerm{T: env.st.getMem("nev:"+vt.T.String(), mkApp("nev0", SInt, vt.T)), Typ: intT}
	case "evkind", "evname", "evstrat", "evsnap", "evact", "evout":
		// single-assignment event log of a report object: kind / asset name / strategy / streams of event i
		v := e.evalSpec(args[0], env)
		vt, ok := v.(VTerm)
		if !ok {
			unsup("spec: %s of %T", name, v)
		}
		i := term(e.evalSpec(args[1], env))
		switch name {
		case "evkind":
			return VTerm{T: mkApp("evkind", SInt, vt.T, i), Typ: intT}
		case "evname":
			return VTerm{T: mkApp("evname", SStr, vt.T, i), Typ: types.Typ[types.String]}
		case "evstrat":
			return VTerm{T: mkApp("evstrat", SRef, vt.T, i), Typ: types.Typ[types.UntypedNil]}
		default:
			return VTerm{T: mkApp(name, SInt, vt.T, i), Typ: intT}
		}
	case "nexec":
		v := e.evalSpec(args[0], env)
		vt, ok := v.(VTerm)
		if !ok {
			unsup("spec: nexec of %T", v)
		}
		return VTerm{T: env.st.getMem("nexec:"+vt.T.String(), mkApp("nexec0", SInt, vt.T)), Typ: intT}
	case "execarg":
		// execarg(stmt, i, k, like): i-th argument of the k-th Exec of stmt; `like` fixes the sort
		v := e.evalSpec(args[0], env)
		vt, ok := v.(VTerm)
		if !ok || len(args) != 4 {
			unsup("spec: execarg(stmt, i, k, like)")
		}
		like := term(e.evalSpec(args[3], env))
		k := term(e.evalSpec(args[2], env))
		return VTerm{T: mkApp(fmt.Sprintf("execarg%d_%s", atoi(args[1].Val), sortTag(like.Sort)), like.Sort, vt.T, k), Typ: e.evalSpec(args[3], env).(VTerm).Typ}
	case "bcount":
		// multiplicity of value v in the multiset held by search tree b (ghost abstract state)
		v := e.evalSpec(args[0], env)
		vt, ok := v.(VTerm)
		if !ok || vt.T.Sort != SRef {
			unsup("spec: bcount of %T", v)
		}
		arr := env.st.getMem("bst:"+vt.T.String(), mkApp("bcount0", arraySortK(SReal, SInt), vt.T))
		return VTerm{T: mkSelect(arr, toReal(term(e.evalSpec(args[1], env)))), Typ: intT}
	case "view":
		// ghost abstract state of a repository object: map from asset name to the ordered snapshots it holds
		v := e.evalSpec(args[0], env)
		vt, ok := v.(VTerm)
		if !ok || vt.T.Sort != SRef {
			unsup("spec: view of %T", v)
		}
		return e.ghostView(env.st, vt.T)
	case "has":
		m, ok := e.evalSpec(args[0], env).(VMap)
		if !ok {
			unsup("spec: has() expects a map")
		}
		return VTerm{T: mkSelect(m.Has, term(e.evalSpec(args[1], env))), Typ: boolT}
	case "sameslice":
		a, ok1 := e.evalSpec(args[0], env).(VSlice)
		b, ok2 := e.evalSpec(args[1], env).(VSlice)
		if !ok1 || !ok2 {
			unsup("spec: sameslice expects slices")
		}
		return VTerm{T: mkAnd(mkEq(a.Len, b.Len), mkEq(a.Arr, b.Arr)), Typ: boolT}
	case "hor":
		v := e.evalSpec(args[0], env)
		s, ok := v.(VStream)
		if !ok {
			unsup("spec: hor of %T", v)
		}
		return VTerm{T: mkApp("hor", SInt, s.ID, term(e.evalSpec(args[1], env))), Typ: intT}
	case "max", "min":
		vs := evalArgs()
		a, b := term(vs[0]), term(vs[1])
		if name == "max" {
			return VTerm{T: mkMax(a, b), Typ: resType(vs[0], vs[1])}
		}
		return VTerm{T: mkMin(a, b), Typ: resType(vs[0], vs[1])}
	case "second":
		// relational clauses: the value of the expression in the second run
		if env.other == nil || env.rel2 == nil || len(args) != 1 {
			unsup("spec: second() outside a rel clause")
		}
		o := *env.other
		o.bound = env.bound
		o.other = nil
		// bound variables of the enclosing quantifiers stay visible
		if len(env.bound) > 0 {
			n := map[string]Value{}
			for k, v := range o.names {
				n[k] = v
			}
			o.names = n
		}
		saveR, saveA := e.callRes, e.callArgs
		e.callRes, e.callArgs = env.rel2.callRes, env.rel2.callArgs
		n0 := len(o.st.pc)
		v := e.evalSpec(args[0], &o)
		e.callRes, e.callArgs = saveR, saveA
		_ = n0
		return v
	case "istype":
		// dynamic type test on an interface-typed value: istype(x, "trend.Sma")
		if len(args) != 2 || args[1].Kind != "str" {
			unsup("spec: istype(x, \"pkg.Type\")")
		}
		v := e.evalSpec(args[0], env)
		return VTerm{T: mkEq(mkApp("dyntype", SInt, term(v)), typeTag(args[1].Val)), Typ: boolT}
	case "as":
		// the same value seen at its dynamic type, so that fields can be selected: as(x, "trend.Ema").Smoothing
		if len(args) != 2 || args[1].Kind != "str" {
			unsup("spec: as(x, \"pkg.Type\")")
		}
		v := e.evalSpec(args[0], env)
		i := strings.LastIndex(args[1].Val, ".")
		if p := e.w.Pkgs[args[1].Val[:i]]; p != nil {
			if o := p.Types.Scope().Lookup(args[1].Val[i+1:]); o != nil {
				return VTerm{T: term(v), Typ: types.NewPointer(o.Type())}
			}
		}
		unsup("spec: as(): unknown type %s", args[1].Val)
	case "zero":
		// zero value of the argument's type (element types may be type parameters)
		vs := evalArgs()
		if vt, ok := vs[0].(VTerm); ok && vt.Typ != nil {
			return e.zeroValue(vt.Typ)
		}
		unsup("spec: zero() of a non-scalar")
	case "uf_Str", "uf_Int", "uf_Real", "uf_Bool":
		// uf_<Sort>("name", args...): the uninterpreted function of that name used by the model of an external
		// (e.g. uf_Str("str_FormatFloat", x, 103, 0 - 1, bits) is what strconv.FormatFloat(x, 'g', -1, bits) denotes)
		if len(args) < 1 || args[0].Kind != "str" {
			unsup("spec: %s expects a function name", name)
		}
		var ts []*Term
		for _, a := range args[1:] {
			ts = append(ts, term(e.evalSpec(a, env)))
		}
		switch name {
		case "uf_Str":
			return VTerm{T: mkApp(args[0].Val, SStr, ts...), Typ: types.Typ[types.String]}
		case "uf_Real":
			return VTerm{T: mkApp(args[0].Val, SReal, ts...), Typ: types.Typ[types.Float64]}
		case "uf_Bool":
			return VTerm{T: mkApp(args[0].Val, SBool, ts...), Typ: boolT}
		}
		return VTerm{T: mkApp(args[0].Val, SInt, ts...), Typ: intT}
	case "nwr":
		// nwr(w): number of Write calls made on the writer w so far
		v := term(e.evalSpec(args[0], env))
		return VTerm{T: env.st.getMem("nwr:"+v.String(), mkApp("nwr0", SInt, v)), Typ: intT}
	case "wlen":
		vs := evalArgs()
		return VTerm{T: mkApp("wlog_len", SInt, term(vs[0]), term(vs[1])), Typ: intT}
	case "wbyte":
		// wbyte(w, i, j): byte j of the slice handed to the i-th Write on w
		vs := evalArgs()
		return VTerm{T: mkSelect(mkApp("wlog_arr", arraySort(SInt, SInt), term(vs[0]), term(vs[1])), term(vs[2])), Typ: intT}
	case "wjson":
		// wjson(w, i, x): the i-th Write on w delivered exactly json.Marshal(x)
		vs := evalArgs()
		x := term(vs[2])
		tag := sortTag(x.Sort)
		return VTerm{T: mkAnd(mkEq(mkApp("wlog_len", SInt, term(vs[0]), term(vs[1])), mkApp("jsonenc_len_"+tag, SInt, x)), mkEq(mkApp("wlog_arr", arraySort(SInt, SInt), term(vs[0]), term(vs[1])), mkApp("jsonenc_arr_"+tag, arraySort(SInt, SInt), x))), Typ: boolT}
	case "gcnt":
		// gcnt(x, "name"): ghost counter of calls of a certain kind made on object x (see attr counts)
		if len(args) != 2 || args[1].Kind != "str" {
			unsup("spec: gcnt(x, \"name\")")
		}
		v := term(e.evalSpec(args[0], env))
		return VTerm{T: env.st.getMem("gcnt:"+args[1].Val+":"+v.String(), mkApp("gcnt0_"+args[1].Val, SInt, v)), Typ: intT}
	case "csverrfinal":
		// csverrfinal(w): the last csv.Writer.Error() of w was asked with nothing pending (after Flush)
		v := term(e.evalSpec(args[0], env))
		return VTerm{T: env.st.getMem("csverrfinal:"+v.String(), tFalse), Typ: boolT}
	case "rkind":
		return VTerm{T: mkApp("reflect_kind", SInt, term(e.evalSpec(args[0], env))), Typ: intT}
	case "rtype":
		// rtype(v): what v.Type().String() returns
		return VTerm{T: mkApp("reflect_typestr", SStr, mkApp("reflect_type", SRef, term(e.evalSpec(args[0], env)))), Typ: types.Typ[types.String]}
	case "rval":
		// rval(v, "Float"): the payload of the reflect.Value v as read by v.Float() / written by v.SetFloat(x)
		if len(args) != 2 || args[1].Kind != "str" {
			unsup("spec: rval(v, \"Accessor\")")
		}
		v := term(e.evalSpec(args[0], env))
		so, ty := SInt, types.Type(intT)
		switch args[1].Val {
		case "Time":
			so, ty = SInt, types.Type(intT)
		case "Float":
			so, ty = SReal, types.Typ[types.Float64]
		case "String":
			so, ty = SStr, types.Typ[types.String]
		case "Bool":
			so, ty = SBool, boolT
		}
		return VTerm{T: env.st.getMem("rval_"+args[1].Val+":"+v.String(), mkApp("rval_"+args[1].Val, so, v)), Typ: ty}
	case "kindbits":
		// helper.kindToBits[k]: the fixed package-level table
		for _, p := range e.w.Pkgs {
			if shortPkg(p.PkgPath) == "helper" {
				if o, ok := p.Types.Scope().Lookup("kindToBits").(*types.Var); ok {
					if m, ok := e.globalVar(o).(VMap); ok {
						v, _ := e.mapGet(m, term(e.evalSpec(args[0], env)))
						return v
					}
				}
			}
		}
		unsup("spec: kindbits: helper.kindToBits not found")
	case "trunc":
		// int(x) of a float: truncation toward zero, the same term the conversion in the code produces
		vs := evalArgs()
		x := toReal(term(vs[0]))
		fl := &Term{Op: "to_int", Args: []*Term{x}, Sort: SInt}
		neg := &Term{Op: "-", Args: []*Term{&Term{Op: "to_int", Args: []*Term{mkNeg(x)}, Sort: SInt}}, Sort: SInt}
		return VTerm{T: mkIte(mkCmp(">=", x, toReal(mkInt(0))), fl, neg), Typ: intT}
	case "round":
		// math.Round: half away from zero
		vs := evalArgs()
		x := toReal(term(vs[0]))
		half := mkRat(big.NewRat(1, 2))
		zero := mkRat(new(big.Rat))
		up := toReal(&Term{Op: "to_int", Args: []*Term{mkArith("+", x, half)}, Sort: SInt})
		dn := mkNeg(toReal(&Term{Op: "to_int", Args: []*Term{mkArith("+", mkNeg(x), half)}, Sort: SInt}))
		return VTerm{T: mkIte(mkCmp(">=", x, zero), up, dn), Typ: types.Typ[types.Float64]}
	case "abs":
		vs := evalArgs()
		a := term(vs[0])
		zero := mkInt(0)
		return VTerm{T: mkIte(mkCmp(">=", a, zero), a, mkNeg(a)), Typ: vs[0].(VTerm).Typ}
	case "real":
		vs := evalArgs()
		return VTerm{T: toReal(term(vs[0])), Typ: types.Typ[types.Float64]}
	case "ite":
		vs := evalArgs()
		return VTerm{T: mkIte(term(vs[0]), term(vs[1]), term(vs[2])), Typ: resType(vs[1], vs[2])}
	}
	if m, ok := e.macros[name]; ok {
		if len(m.Params) != len(args) {
			unsup("spec: macro %s expects %d args", name, len(m.Params))
		}
		n := *env
		n.names = map[string]Value{}
		for k, v := range env.names {
			n.names[k] = v
		}
		n.bound = map[string]*Term{}
		for i, p := range m.Params {
			n.names[p] = e.evalSpec(args[i], env)
		}
		return e.evalSpec(m.Body, &n)
	}
	if pf, ok := prelude[name]; ok {
		vs := evalArgs()
		if pf.Poly {
			var es Sort
			for _, v := range vs {
				if sv, ok := v.(VStream); ok {
					es = e.sortOf(sv.Elem)
					break
				}
			}
			if es == "" {
				unsup("spec: polymorphic %s needs a stream argument", name)
			}
			tag := sortTag(es)
			iname := name + "_" + tag
			if _, ok := prelude[iname]; !ok {
				r := strings.NewReplacer("{S}", string(es), "{T}", tag)
				np := &PreludeFn{Name: iname, Args: pf.Args, Ret: pf.Ret, SMT: r.Replace(pf.SMT)}
				for _, d := range pf.Deps {
					np.Deps = append(np.Deps, r.Replace(d))
				}
				prelude[iname] = np
			}
			pf = prelude[iname]
			name = iname
		}
		if len(vs) != len(pf.Args) {
			unsup("spec: %s expects %d args", name, len(pf.Args))
		}
		var ts []*Term
		for i, v := range vs {
			if pf.Args[i] == "mapdom" {
				m, ok := v.(VMap)
				if !ok {
					unsup("spec: %s expects a map", name)
				}
				ts = append(ts, m.Has)
				continue
			}
			if pf.Args[i] == "refslice" {
				sl, ok := v.(VSlice)
				if !ok {
					unsup("spec: %s expects a slice", name)
				}
				ts = append(ts, sl.Arr)
				continue
			}
			if pf.Args[i] == "chanslice" {
				sl, ok := v.(VSlice)
				if !ok {
					unsup("spec: %s expects a slice of channels", name)
				}
				ts = append(ts, sl.Arr)
				continue
			}
			t := term(v)
			switch pf.Args[i] {
			case "real":
				t = toReal(t)
			}
			ts = append(ts, t)
		}
		rs := SInt
		var rt types.Type = intT
		switch pf.Ret {
		case "real":
			rs = SReal
			rt = types.Typ[types.Float64]
		case "bool":
			rs = SBool
			rt = boolT
		case "str":
			rs = SStr
			rt = types.Typ[types.String]
		case "stream":
			return VStream{ID: mkApp(name, SInt, ts...), Elem: types.Typ[types.Float64]}
		}
		return VTerm{T: mkApp(name, rs, ts...), Typ: rt}
	}
	unsup("spec: unknown function %q", name)
	return nil
}

// call-log functions of function values
func (e *Engine) fnRet(fv VFunc, k *Term) Value {
	rt := fv.Sig.Results().At(0).Type()
	s := e.sortOf(rt)
	return e.wrap(mkApp("fnret_"+sortTag(s), s, fv.ID, k), rt)
}

func (e *Engine) fnArg(fv VFunc, i int, k *Term) Value {
	if i >= fv.Sig.Params().Len() {
		unsup("spec: function has no arg%d", i)
	}
	at := fv.Sig.Params().At(i).Type()
	s := e.sortOf(at)
	return e.wrap(mkApp(fmt.Sprintf("fnarg%d_%s", i, sortTag(s)), s, fv.ID, k), at)
}

func (e *Engine) ghostView(st *State, ref *Term) VMap {
	key := "ghost:view:" + ref.String()
	if v, ok := st.memV[key]; ok {
		return v.(VMap)
	}
	ks := SStr
	vs := arraySort(SInt, SRef)
	elem := types.NewSlice(types.NewPointer(snapshotType))
	m := VMap{Has: mkApp("ghost_view_has", arraySortK(ks, SBool), ref), Val: mkApp("ghost_view_val", arraySortK(ks, vs), ref), Len: mkApp("ghost_view_len", arraySortK(ks, SInt), ref), Key: types.Typ[types.String], Elem: elem}
	e.nfresh++
	b := mkVar(fmt.Sprintf("k$%d", e.nfresh), ks)
	st.assume(mkForall([]*Term{b}, mkCmp(">=", mkSelect(m.Len, b), mkInt(0)), [][]*Term{{mkSelect(m.Len, b)}}))
	return m
}

func (e *Engine) havocGhostView(st *State, ref *Term) {
	// event log counter of the object (backtest.Report protocol trace) only grows
	oldN := st.getMem("nev:"+ref.String(), mkApp("nev0", SInt, ref))
	nn := e.fresh("nev", SInt)
	st.assume(mkCmp("<=", oldN, nn))
	st.mem["nev:"+ref.String()] = nn
	ks := SStr
	vs := arraySort(SInt, SRef)
	elem := types.NewSlice(types.NewPointer(snapshotType))
	m := VMap{Has: e.fresh("view.has", arraySortK(ks, SBool)), Val: e.fresh("view.val", arraySortK(ks, vs)), Len: e.fresh("view.len", arraySortK(ks, SInt)), Key: types.Typ[types.String], Elem: elem}
	e.nfresh++
	b := mkVar(fmt.Sprintf("k$%d", e.nfresh), ks)
	st.assume(mkForall([]*Term{b}, mkCmp(">=", mkSelect(m.Len, b), mkInt(0)), [][]*Term{{mkSelect(m.Len, b)}}))
	st.memV["ghost:view:"+ref.String()] = m
}
