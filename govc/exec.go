package main

import (
	"fmt"
	"go/ast"
	"go/constant"
	"go/token"
	"go/types"
	"math/big"
	"sort"
	"strconv"
	"strings"

	"golang.org/x/tools/go/packages"
)

type Obligation struct {
	Name                                      string
	Func                                      string
	Tags                                      []string
	Hyps                                      []*Term
	Goal                                      *Term
	Where                                     string
	Kind                                      string // requires, ensures, establish, preserve, assert, bounds, ownership, frame, ...
	Result                                    string // unsat (discharged) / sat / unknown / timeout / static-ok / static-fail
	Solver                                    string
	Time                                      float64
	Model                                     string
	CandModel                                 string // model of the quantifier-free relaxation (candidate counterexample)
	Static                                    bool   // decided syntactically
	ShortTimeout                              bool
	smtSliced, smtFull, smtQF, smtLin, smtANL string
	anl                                       bool // render with nonlinear operations abstracted
	Cone                                      bool // belongs to a callee verified because the property rests on its contract
	Detail                                    string
}

type flowKind int

const (
	fNormal flowKind = iota
	fReturn
	fBreak
	fContinue
)

type Out struct {
	st   *State
	kind flowKind
	ret  []Value
}

type frame struct {
	pkg  *packages.Package
	fi   *FuncInfo
	what string
}

type Engine struct {
	w            *World
	nfresh       int
	obls         []*Obligation
	fi           *FuncInfo // function under verification
	frames       []frame   // inlining stack; top = current syntactic context
	old          *State
	notes        map[string]bool // inlined-leaf:..., trusted:..., etc
	loopIdx      map[ast.Stmt]*types.Var
	localRefs    map[string]bool
	modifiesOK   map[string]bool // ref term strings writable by contract
	modifiesFld  map[string]bool // "<ref>.<field>": single fields writable by contract (modifies c.columns)
	obCount      map[string]int
	pathN        int
	inLit        int
	curTags      []string
	callN        int
	macros       map[string]*Macro
	idTerms      map[string]*Term
	madeHere     map[string]bool
	baseNames    map[string]Value
	selfNames    map[string]Value
	callRes      map[string][]Value
	callArgs     map[string][][]Value // results of contract calls by callee name (spec: res(Callee_Name, i))
	dynType      map[string]types.Type
	ncalledDirty map[string]bool // call counters changed inside a cut loop: unknown afterwards
	importAll    bool            // refinement checks see every offer of the implementation
	arrayMode    bool
	usedNilChan  bool
	loopDepth    int
	lastAnyArgs  []Value
	published    map[string]bool // locally allocated objects that have been sent on a stream
	trackAlloc   bool            // the contract under verification talks about freshness: allocations are numbered
	inRel        bool            // inside the two runs of a relational check
	globalErrs   map[string]*Term
	extraStreams []*Term
}

func (e *Engine) pkg() *packages.Package { return e.frames[len(e.frames)-1].pkg }
func (e *Engine) info() *types.Info      { return e.pkg().TypesInfo }

func (e *Engine) typeOf(x ast.Expr) types.Type {
	tv, ok := e.info().Types[x]
	if ok {
		return tv.Type
	}
	if id, ok := x.(*ast.Ident); ok {
		if o := e.info().ObjectOf(id); o != nil {
			return o.Type()
		}
	}
	unsup("no type for expression %s", e.src(x))
	return nil
}

func (e *Engine) src(n ast.Node) string {
	var sb strings.Builder
	p := e.w.Fset.Position(n.Pos())
	fmt.Fprintf(&sb, "%s:%d", shortFile(p.Filename), p.Line)
	return sb.String()
}

func shortFile(f string) string {
	if i := strings.Index(f, "/repo/"); i >= 0 {
		return f[i+6:]
	}
	parts := strings.Split(f, "/")
	if len(parts) >= 2 {
		return strings.Join(parts[len(parts)-2:], "/")
	}
	return f
}

// ---------------------------------------------------------------------------------------------
// obligations

func (e *Engine) oblName(kind string) string {
	base := e.fi.Key + "/" + kind
	e.obCount[base]++
	if n := e.obCount[base]; n > 1 {
		return fmt.Sprintf("%s@%d", base, n)
	}
	return base
}

// assert goal under st.pc; the goal is split into conjuncts, implications and top-level foralls are opened.
func (e *Engine) assert(st *State, goal *Term, kind, where string, tags []string) {
	if e.inRel && !strings.HasPrefix(kind, "rel:") {
		// the two runs of a relational check re-execute the body: its ordinary obligations (callee preconditions, loop
		// invariants, bounds) are those of the function's own verification and are not generated a second time
		return
	}
	hyps := st.pc
	if len(e.globalErrs) > 0 {
		hyps = append([]*Term(nil), st.pc...)
		for _, n := range sortedKeys(e.globalErrs) {
			hyps = append(hyps, mkNot(mkEq(e.globalErrs[n], mkConst("nil", SRef))))
		}
	}
	if e.usedNilChan {
		if len(e.globalErrs) == 0 {
			hyps = append([]*Term(nil), st.pc...)
		}
		hyps = append(hyps, mkEq(mkApp("slen", SInt, mkConst("nilchan", SInt)), mkInt(0)))
	}
	e.assertSplit(hyps, goal, kind, where, tags)
}

func (e *Engine) assertSplit(hyps []*Term, goal *Term, kind, where string, tags []string) {
	switch {
	case isTrue(goal):
		// still record as trivially discharged so that counts are stable
		e.obls = append(e.obls, &Obligation{Name: e.oblName(kind), Func: e.fi.Key, Tags: tags, Hyps: nil, Goal: goal, Where: where, Kind: kind, Static: true, Result: "static-ok", Detail: "goal simplified to true"})
		return
	case goal.Op == "and":
		for _, a := range goal.Args {
			e.assertSplit(hyps, a, kind, where, tags)
		}
		return
	case goal.Op == "=>":
		h2 := append(append([]*Term(nil), hyps...), flattenAnd(goal.Args[0])...)
		e.assertSplit(h2, goal.Args[1], kind, where, tags)
		return
	case goal.Op == "or":
		// A || B  ==  !A ==> B: open the structured disjunct (quantifier / conjunction) under the negation of the others
		pick := -1
		for i, a := range goal.Args {
			if a.Op == "forall" || a.Op == "and" || a.Op == "=>" {
				pick = i
			}
		}
		if pick >= 0 {
			h2 := append([]*Term(nil), hyps...)
			for i, a := range goal.Args {
				if i != pick {
					h2 = append(h2, flattenAnd(mkNot(a))...)
				}
			}
			e.assertSplit(h2, goal.Args[pick], kind, where, tags)
			return
		}
	case goal.Op == "forall":
		m := map[string]*Term{}
		for _, b := range goal.Bound {
			m[b.Name] = e.fresh(strings.TrimSuffix(b.Name, "$"), b.Sort)
		}
		e.assertSplit(hyps, subst(goal.Args[0], m), kind, where, tags)
		return
	}
	if tags == nil {
		tags = e.curTags
	}
	e.obls = append(e.obls, &Obligation{Name: e.oblName(kind), Func: e.fi.Key, Tags: tags, Hyps: append([]*Term(nil), hyps...), Goal: goal, Where: where, Kind: kind})
}

func flattenAnd(t *Term) []*Term {
	if t.Op == "and" {
		var out []*Term
		for _, a := range t.Args {
			out = append(out, flattenAnd(a)...)
		}
		return out
	}
	if isTrue(t) {
		return nil
	}
	return []*Term{t}
}

func (e *Engine) staticObl(kind, where string, ok bool, detail string, tags []string) {
	if strings.HasPrefix(kind, "frame/") && e.fi != nil && e.fi.Contract != nil && e.fi.Contract.Attrs["callrequires"] == "assumed" {
		// a program entry point owns everything it builds: the frame rule (what a library function may write) does
		// not apply to it
		return
	}
	r := "static-ok"
	if !ok {
		r = "static-fail"
	}
	if tags == nil {
		tags = e.curTags
	}
	e.obls = append(e.obls, &Obligation{Name: e.oblName(kind), Func: e.fi.Key, Tags: tags, Where: where, Kind: kind, Static: true, Result: r, Detail: detail, Goal: mkBool(ok)})
}

// ---------------------------------------------------------------------------------------------
// statements

func (e *Engine) execBlock(stmts []ast.Stmt, st *State) []Out {
	outs := []Out{{st: st, kind: fNormal}}
	for _, s := range stmts {
		var next []Out
		for _, o := range outs {
			if o.kind != fNormal {
				next = append(next, o)
				continue
			}
			next = append(next, e.execStmt(s, o.st)...)
		}
		outs = next
		if len(outs) > 512 {
			unsup("path explosion (>512 paths)")
		}
	}
	return outs
}

func (e *Engine) execStmt(s ast.Stmt, st *State) []Out {
	switch x := s.(type) {
	case *ast.BlockStmt:
		return e.execBlock(x.List, st)
	case *ast.ExprStmt:
		// wg.Wait(): the spawned processes run to completion here (join)
		if c, ok := x.X.(*ast.CallExpr); ok {
			if se, ok := c.Fun.(*ast.SelectorExpr); ok && se.Sel.Name == "Wait" {
				if sel := e.info().Selections[se]; sel != nil {
					if fn, ok := sel.Obj().(*types.Func); ok && fn.Pkg() != nil && fn.Pkg().Path() == "sync" && len(st.procs) > 0 {
						var outs []Out
						for _, o := range e.runProcs(Out{st: st}) {
							outs = append(outs, Out{st: o.st})
						}
						return outs
					}
				}
			}
		}
		e.eval(x.X, st)
		return []Out{{st: st}}
	case *ast.EmptyStmt:
		return []Out{{st: st}}
	case *ast.AssignStmt:
		e.execAssign(x, st)
		return []Out{{st: st}}
	case *ast.IncDecStmt:
		v := term(e.eval(x.X, st))
		one := mkInt(1)
		var nv *Term
		if x.Tok == token.INC {
			nv = mkArith("+", v, one)
		} else {
			nv = mkArith("-", v, one)
		}
		e.assignTo(x.X, VTerm{T: nv, Typ: e.typeOf(x.X)}, st)
		return []Out{{st: st}}
	case *ast.DeclStmt:
		gd := x.Decl.(*ast.GenDecl)
		for _, sp := range gd.Specs {
			vs, ok := sp.(*ast.ValueSpec)
			if !ok {
				continue
			}
			for i, n := range vs.Names {
				obj := e.info().Defs[n]
				if obj == nil {
					continue
				}
				if i < len(vs.Values) {
					st.vars[obj] = e.eval(vs.Values[i], st)
				} else {
					st.vars[obj] = e.zeroValue(obj.Type())
				}
			}
		}
		return []Out{{st: st}}
	case *ast.IfStmt:
		if x.Init != nil {
			outs := e.execStmt(x.Init, st)
			st = outs[0].st
		}
		c := term(e.eval(x.Cond, st))
		var res []Out
		if !isFalse(c) {
			t := st
			if !isTrue(c) {
				t = st.clone()
				t.assume(c)
			}
			res = append(res, e.execBlock(x.Body.List, t)...)
			if isTrue(c) {
				return res
			}
		}
		f := st
		if !isFalse(c) {
			f = st.clone()
			f.assume(mkNot(c))
		}
		if x.Else != nil {
			res = append(res, e.execStmt(x.Else, f)...)
		} else {
			res = append(res, Out{st: f})
		}
		return res
	case *ast.ForStmt:
		return e.execFor(x, st)
	case *ast.RangeStmt:
		return e.execRange(x, st)
	case *ast.ReturnStmt:
		var vals []Value
		if len(x.Results) == 1 {
			v := e.eval(x.Results[0], st)
			if tup, ok := v.(VTuple); ok {
				vals = tup
			} else {
				vals = []Value{v}
			}
		} else {
			for _, r := range x.Results {
				vals = append(vals, e.eval(r, st))
			}
		}
		return []Out{{st: st, kind: fReturn, ret: vals}}
	case *ast.BranchStmt:
		if x.Label != nil {
			unsup("labelled branch")
		}
		switch x.Tok {
		case token.BREAK:
			return []Out{{st: st, kind: fBreak}}
		case token.CONTINUE:
			return []Out{{st: st, kind: fContinue}}
		}
		unsup("branch %s", x.Tok)
	case *ast.GoStmt:
		if _, isLit := ast.Unparen(x.Call.Fun).(*ast.FuncLit); !isLit && e.loopDepth > 0 {
			// `go f(args)` inside a loop: the callee's contract takes effect at once (Kahn sequentialisation)
			e.eval(x.Call, st)
			return []Out{{st: st}}
		}
		st.procs = append(st.procs, x)
		// evaluate arguments of `go f(args)` now (ownership moves at spawn); literal bodies run later
		return []Out{{st: st}}
	case *ast.DeferStmt:
		st.defers = append(st.defers, deferred{call: x.Call})
		return []Out{{st: st}}
	case *ast.SendStmt:
		ch, ok := e.eval(x.Chan, st).(VStream)
		if !ok {
			unsup("send on non-stream")
		}
		v := e.eval(x.Value, st)
		e.send(st, ch, v, e.src(x))
		return []Out{{st: st}}
	case *ast.SwitchStmt:
		return e.execSwitch(x, st)
	}
	unsup("statement %T at %s", s, e.src(s))
	return nil
}

func (e *Engine) execSwitch(x *ast.SwitchStmt, st *State) []Out {
	if x.Init != nil {
		st = e.execStmt(x.Init, st)[0].st
	}
	var tag *Term
	if x.Tag != nil {
		tag = term(e.eval(x.Tag, st))
	}
	var res []Out
	cur := st
	var deflt *ast.CaseClause
	for _, c := range x.Body.List {
		cc := c.(*ast.CaseClause)
		if cc.List == nil {
			deflt = cc
			continue
		}
		var conds []*Term
		for _, ex := range cc.List {
			v := term(e.eval(ex, cur))
			if tag != nil {
				conds = append(conds, mkEq(tag, v))
			} else {
				conds = append(conds, v)
			}
		}
		cond := mkOr(conds...)
		if !isFalse(cond) {
			t := cur.clone()
			t.assume(cond)
			for _, o := range e.execBlock(cc.Body, t) {
				if o.kind == fBreak {
					o.kind = fNormal
				}
				res = append(res, o)
			}
		}
		if isTrue(cond) {
			return res
		}
		n := cur.clone()
		n.assume(mkNot(cond))
		cur = n
	}
	if deflt != nil {
		for _, o := range e.execBlock(deflt.Body, cur) {
			if o.kind == fBreak {
				o.kind = fNormal
			}
			res = append(res, o)
		}
	} else {
		res = append(res, Out{st: cur})
	}
	return res
}

func (e *Engine) execAssign(x *ast.AssignStmt, st *State) {
	if x.Tok != token.ASSIGN && x.Tok != token.DEFINE {
		// op-assign
		l := term(e.eval(x.Lhs[0], st))
		r := term(e.eval(x.Rhs[0], st))
		op := strings.TrimSuffix(x.Tok.String(), "=")
		e.assignTo(x.Lhs[0], VTerm{T: e.binop(op, l, r, e.typeOf(x.Lhs[0]), st, e.src(x)), Typ: e.typeOf(x.Lhs[0])}, st)
		return
	}
	if len(x.Lhs) == len(x.Rhs) {
		vals := make([]Value, len(x.Rhs))
		for i, r := range x.Rhs {
			vals[i] = e.eval(r, st)
		}
		for i, l := range x.Lhs {
			e.assignTo(l, vals[i], st)
		}
		return
	}
	if len(x.Rhs) == 1 {
		// v, ok := <-c   |  a, b := f()
		if u, ok := ast.Unparen(x.Rhs[0]).(*ast.UnaryExpr); ok && u.Op == token.ARROW && len(x.Lhs) == 2 {
			ch, isS := e.eval(u.X, st).(VStream)
			if !isS {
				unsup("receive from non-stream")
			}
			v, okT := e.recv(st, ch, e.src(x))
			e.assignTo(x.Lhs[0], v, st)
			e.assignTo(x.Lhs[1], VTerm{T: okT, Typ: types.Typ[types.Bool]}, st)
			return
		}
		if ix, ok := ast.Unparen(x.Rhs[0]).(*ast.IndexExpr); ok && len(x.Lhs) == 2 {
			if m, isMap := e.eval(ix.X, st).(VMap); isMap {
				v, okT := e.mapGet(m, term(e.eval(ix.Index, st)))
				e.assignTo(x.Lhs[0], v, st)
				e.assignTo(x.Lhs[1], VTerm{T: okT, Typ: types.Typ[types.Bool]}, st)
				return
			}
		}
		if ta, ok := ast.Unparen(x.Rhs[0]).(*ast.TypeAssertExpr); ok && len(x.Lhs) == 2 && ta.Type != nil {
			// v, ok := x.(T) never panics: ok is the dynamic-type test, v the T held by x when ok and T's zero value otherwise
			if xv, isT := e.eval(ta.X, st).(VTerm); isT && xv.T.Sort == SRef {
				to := e.typeOf(ta.Type)
				if _, isIface := to.Underlying().(*types.Interface); !isIface {
					tn := sanitize(to.String())
					okT := mkApp("dyn_is_"+tn, SBool, xv.T)
					so := e.sortOf(to)
					held := xv.T
					if so != SRef {
						held = mkApp("dyn_as_"+tn+"__"+sortTag(so), so, xv.T)
					}
					if zv, isZ := e.zeroValue(to).(VTerm); isZ {
						e.assignTo(x.Lhs[0], e.wrap(mkIte(okT, held, zv.T), to), st)
						e.assignTo(x.Lhs[1], VTerm{T: okT, Typ: types.Typ[types.Bool]}, st)
						return
					}
				}
			}
			unsup("type assertion at %s", e.src(x))
		}
		v := e.eval(x.Rhs[0], st)
		tup, ok := v.(VTuple)
		if !ok || len(tup) != len(x.Lhs) {
			unsup("tuple assignment mismatch at %s", e.src(x))
		}
		for i, l := range x.Lhs {
			e.assignTo(l, tup[i], st)
		}
		return
	}
	unsup("assignment form at %s", e.src(x))
}

func (e *Engine) assignTo(l ast.Expr, v Value, st *State) {
	switch lx := ast.Unparen(l).(type) {
	case *ast.Ident:
		if lx.Name == "_" {
			return
		}
		obj := e.info().ObjectOf(lx)
		if obj == nil {
			unsup("assign to unknown ident %s", lx.Name)
		}
		if _, isVar := obj.(*types.Var); !isVar {
			unsup("assign to non-variable %s", lx.Name)
		}
		// //@ attr frozen = a, b: locals that hold command-line flags (filled in by the flag package through their
		// address) are not assigned by the program itself: what the user asked for is what is used
		if e.fi != nil && e.fi.Contract != nil && len(e.frames) == 1 {
			if fz := e.fi.Contract.Attrs["frozen"]; fz != "" {
				if _, bound := st.vars[obj]; bound {
					for _, n := range strings.Split(fz, ",") {
						if strings.TrimSpace(n) == lx.Name {
							e.staticObl("frozen/"+lx.Name, e.src(l), false, "the flag variable "+lx.Name+" is assigned by the program after it was declared", nil)
						}
					}
				}
			}
		}
		if obj.Parent() == obj.Pkg().Scope() {
			unsup("assignment to package-level variable %s", lx.Name)
		}
		// coerce Int literal to Real for number-typed vars
		if vt, ok := v.(VTerm); ok {
			want := e.sortOf(obj.Type())
			if want == SReal && vt.T.Sort == SInt {
				v = VTerm{T: toReal(vt.T), Typ: obj.Type()}
			}
		}
		st.vars[obj] = v
	case *ast.SelectorExpr:
		// s[i].f = v on a slice of struct values: update the field array of the slice
		if ix, ok := ast.Unparen(lx.X).(*ast.IndexExpr); ok {
			if sl, ok := e.eval(ix.X, st).(VSlice); ok && sl.Fields != nil {
				idx := term(e.eval(ix.Index, st))
				e.boundsCheck(st, idx, sl.Len, e.src(l))
				arr, ok := sl.Fields[lx.Sel.Name]
				if !ok {
					unsup("field %s of slice element not modelled at %s", lx.Sel.Name, e.src(l))
				}
				n := VSlice{Len: sl.Len, Elem: sl.Elem, Fields: map[string]*Term{}}
				for k, a := range sl.Fields {
					n.Fields[k] = a
				}
				n.Fields[lx.Sel.Name] = mkStoreK(arr, idx, term(v))
				e.assignTo(ix.X, n, st)
				return
			}
		}
		base := e.eval(lx.X, st)
		bt, ok := base.(VTerm)
		if !ok || bt.T.Sort != SRef {
			unsup("field assignment on non-ref at %s", e.src(l))
		}
		e.writeField(st, bt, lx.Sel.Name, v, e.src(l))
	case *ast.IndexExpr:
		base := e.eval(lx.X, st)
		idx := term(e.eval(lx.Index, st))
		if m, isMap := base.(VMap); isMap {
			e.assignTo(lx.X, e.mapSet(m, idx, v), st)
			return
		}
		sl, ok := base.(VSlice)
		if !ok {
			unsup("index assignment on %T at %s", base, e.src(l))
		}
		e.boundsCheck(st, idx, sl.Len, e.src(l))
		e.assignTo(lx.X, e.sliceStore(sl, idx, v, st), st)
	case *ast.StarExpr:
		unsup("pointer store at %s", e.src(l))
	default:
		unsup("assignment target %T at %s", l, e.src(l))
	}
}

// a nil literal returned / assigned where a channel or slice is expected
func (e *Engine) coerceNil(v Value, t types.Type) Value {
	vt, ok := v.(VTerm)
	if !ok || vt.T.Op != "const" || vt.T.Name != "nil" {
		return v
	}
	switch u := t.Underlying().(type) {
	case *types.Chan:
		e.usedNilChan = true
		return VStream{ID: mkConst("nilchan", SInt), Elem: u.Elem()}
	case *types.Slice:
		return e.zeroValue(t)
	}
	return VTerm{T: vt.T, Typ: t}
}

func (e *Engine) boundsCheck(st *State, idx, ln *Term, where string) {
	e.assert(st, mkAnd(mkCmp("<=", mkInt(0), idx), mkCmp("<", idx, ln)), "bounds", where, nil)
}

// ---------------------------------------------------------------------------------------------
// channel operations

func (e *Engine) checkNotMoved(st *State, ch VStream, where string) {
	if st.moved[ch.ID.String()] {
		e.staticObl("ownership/use-after-move", where, false, "stream "+ch.ID.String()+" is read after it was handed to another consumer", nil)
	}
}

func (e *Engine) recv(st *State, ch VStream, where string) (Value, *Term) {
	e.checkNotMoved(st, ch, where)
	st.readSet[ch.ID.String()] = true
	e.idTerms[ch.ID.String()] = ch.ID
	c := e.consumed(st, ch.ID)
	ok := mkCmp("<", c, e.slen(ch.ID))
	got := e.sel(ch, c)
	var v Value
	zero := e.zeroValue(ch.Elem)
	switch g := got.(type) {
	case VTerm:
		v = VTerm{T: mkIte(ok, g.T, term(zero)), Typ: ch.Elem}
	default:
		v = got
	}
	e.setConsumed(st, ch.ID, mkIte(ok, mkArith("+", c, mkInt(1)), c))
	return v, ok
}

func (e *Engine) send(st *State, ch VStream, v Value, where string) {
	e.assert(st, mkNot(e.closed(st, ch.ID)), "send-on-open", where, nil)
	n := e.sent(st, ch.ID)
	tgt := e.sel(ch, n)
	switch t := tgt.(type) {
	case VTerm:
		st.assume(mkEq(t.T, term(v)))
	default:
		unsup("send of %T", v)
	}
	// an object allocated here and sent away is published: its fields, tracked as local state so far, become facts about
	// the object (what a receiver reads through the stream); the sender does not write to it afterwards (checked)
	if vt, ok := v.(VTerm); ok && vt.T.Sort == SRef && e.localRefs[vt.T.String()] {
		if dt, ok := e.dynType[vt.T.String()]; ok {
			if _, tname := structOf(dt); tname != "anon" {
				pre := "fld:" + vt.T.String() + "."
				var keys []string
				for k := range st.mem {
					if strings.HasPrefix(k, pre) && !strings.Contains(k[len(pre):], ".") {
						keys = append(keys, k)
					}
				}
				sort.Strings(keys)
				for _, k := range keys {
					val := st.mem[k]
					st.assume(mkEq(mkApp("fld_"+tname+"_"+k[len(pre):]+"__"+sortTag(val.Sort), val.Sort, vt.T), val))
					delete(st.mem, k)
				}
				if e.published == nil {
					e.published = map[string]bool{}
				}
				e.published[vt.T.String()] = true
			}
		}
	}
	// causal check hook
	e.onSend(st, ch, n, where)
	e.setSent(st, ch.ID, mkArith("+", n, mkInt(1)))
}

func (e *Engine) closeStream(st *State, ch VStream, where string) {
	e.assert(st, mkNot(e.closed(st, ch.ID)), "close-once", where, nil)
	e.setClosed(st, ch.ID, tTrue)
	st.assume(mkEq(e.slen(ch.ID), e.sent(st, ch.ID)))
}

// ---------------------------------------------------------------------------------------------
// expressions

func constTerm(v constant.Value, typ types.Type, e *Engine) (Value, bool) {
	s := e.sortOf(typ)
	switch v.Kind() {
	case constant.Bool:
		return VTerm{T: mkBool(constant.BoolVal(v)), Typ: typ}, true
	case constant.Int:
		bi, ok := new(big.Int).SetString(v.ExactString(), 10)
		if !ok {
			return nil, false
		}
		if s == SReal {
			return VTerm{T: mkRat(new(big.Rat).SetInt(bi)), Typ: typ}, true
		}
		return VTerm{T: mkBigInt(bi), Typ: typ}, true
	case constant.Float:
		r, ok := new(big.Rat).SetString(v.ExactString())
		if !ok {
			return nil, false
		}
		// a constant that go/types has already rounded to float64 (a named constant such as 0.8 used at type float64)
		// denotes the shortest decimal that rounds to it, like a literal does: arithmetic is over the reals
		if b, isB := typ.Underlying().(*types.Basic); isB && b.Info()&types.IsFloat != 0 && b.Info()&types.IsUntyped == 0 {
			if f, exact := constant.Float64Val(v); exact || true {
				if d, ok := new(big.Rat).SetString(strconv.FormatFloat(f, 'g', -1, 64)); ok {
					if back, _ := d.Float64(); back == f {
						r = d
					}
				}
			}
		}
		if s == SInt {
			if r.IsInt() {
				return VTerm{T: mkBigInt(r.Num()), Typ: typ}, true
			}
			return nil, false
		}
		return VTerm{T: mkRat(r), Typ: typ}, true
	case constant.String:
		return VTerm{T: mkConst("str_"+sanitize(constant.StringVal(v)), SStr), Typ: typ}, true
	}
	return nil, false
}

func (e *Engine) eval(x ast.Expr, st *State) Value {
	// decimal literals denote their decimal value: arithmetic is over the reals, so 0.015 is 3/200 and not the
	// nearest float64 (go/types rounds a literal as soon as it gets a float64 type)
	if lit, ok := ast.Unparen(x).(*ast.BasicLit); ok && lit.Kind == token.FLOAT {
		if tv, ok := e.info().Types[x]; ok && tv.Type != nil {
			t := tv.Type
			if b, ok := t.(*types.Basic); ok && b.Info()&types.IsUntyped != 0 {
				t = types.Default(t)
			}
			if r, ok := new(big.Rat).SetString(strings.ReplaceAll(lit.Value, "_", "")); ok && e.sortOf(t) == SReal {
				return VTerm{T: mkRat(r), Typ: t}
			}
		}
	}
	if tv, ok := e.info().Types[x]; ok && tv.Value != nil {
		t := tv.Type
		if b, ok := t.(*types.Basic); ok && b.Info()&types.IsUntyped != 0 {
			t = types.Default(t)
		}
		if v, ok := constTerm(tv.Value, t, e); ok {
			return v
		}
	}
	switch ex := x.(type) {
	case *ast.ParenExpr:
		return e.eval(ex.X, st)
	case *ast.Ident:
		return e.evalIdent(ex, st)
	case *ast.BasicLit:
		unsup("literal %s", ex.Value)
	case *ast.BinaryExpr:
		return e.evalBinary(ex, st)
	case *ast.UnaryExpr:
		switch ex.Op {
		case token.ARROW:
			ch, ok := e.eval(ex.X, st).(VStream)
			if !ok {
				unsup("receive from non-stream")
			}
			v, _ := e.recv(st, ch, e.src(ex))
			return v
		case token.NOT:
			return VTerm{T: mkNot(term(e.eval(ex.X, st))), Typ: types.Typ[types.Bool]}
		case token.SUB:
			return VTerm{T: mkNeg(term(e.eval(ex.X, st))), Typ: e.typeOf(ex)}
		case token.ADD:
			return e.eval(ex.X, st)
		case token.AND:
			// &T{...}
			if cl, ok := ast.Unparen(ex.X).(*ast.CompositeLit); ok {
				return e.evalComposite(cl, st)
			}
			if id, ok := ast.Unparen(ex.X).(*ast.Ident); ok {
				if o, ok := e.info().ObjectOf(id).(*types.Var); ok {
					if _, bound := st.vars[o]; bound {
						return VAddr{Obj: o}
					}
				}
			}
			if se, ok := ast.Unparen(ex.X).(*ast.SelectorExpr); ok {
				if sel := e.info().Selections[se]; sel != nil && sel.Kind() == types.FieldVal && len(sel.Index()) == 1 {
					if b, ok := e.eval(se.X, st).(VTerm); ok && b.T.Sort == SRef {
						return VFieldAddr{Base: b, Field: se.Sel.Name, Typ: sel.Type()}
					}
				}
			}
			unsup("address-of at %s", e.src(ex))
		}
		unsup("unary %s", ex.Op)
	case *ast.CallExpr:
		return e.evalCall(ex, st)
	case *ast.SelectorExpr:
		return e.evalSelector(ex, st)
	case *ast.IndexExpr:
		// generic instantiation f[T] handled in call; here: slice index
		if tv, ok := e.info().Types[ex.X]; ok {
			if _, isSig := tv.Type.Underlying().(*types.Signature); isSig {
				return e.eval(ex.X, st)
			}
		}
		base := e.eval(ex.X, st)
		idx := term(e.eval(ex.Index, st))
		switch b := base.(type) {
		case VSlice:
			e.boundsCheck(st, idx, b.Len, e.src(ex))
			return e.sliceElem(b, idx)
		case VMap:
			v, _ := e.mapGet(b, idx)
			return v
		}
		unsup("index of %T at %s", base, e.src(ex))
	case *ast.CompositeLit:
		return e.evalComposite(ex, st)
	case *ast.FuncLit:
		return VClosure{Lit: ex}
	case *ast.StarExpr:
		// *p where p is pointer to struct: same ref
		v := e.eval(ex.X, st)
		if vt, ok := v.(VTerm); ok && vt.T.Sort == SRef {
			return VTerm{T: vt.T, Typ: e.typeOf(ex)}
		}
		unsup("deref at %s", e.src(ex))
	case *ast.SliceExpr:
		unsup("slice expression at %s", e.src(ex))
	case *ast.TypeAssertExpr:
		// single-value form x.(T): panics unless the dynamic type is T (obligation); the value is the T held by x
		if ex.Type != nil {
			if xv, ok := e.eval(ex.X, st).(VTerm); ok && xv.T.Sort == SRef {
				to := e.typeOf(ex.Type)
				if _, isIface := to.Underlying().(*types.Interface); !isIface {
					tn := sanitize(to.String())
					e.assert(st, mkApp("dyn_is_"+tn, SBool, xv.T), "type-assertion", e.src(ex), nil)
					so := e.sortOf(to)
					if so == SRef {
						return VTerm{T: xv.T, Typ: to}
					}
					return e.wrap(mkApp("dyn_as_"+tn+"__"+sortTag(so), so, xv.T), to)
				}
			}
		}
		unsup("type assertion at %s", e.src(ex))
	}
	unsup("expression %T at %s", x, e.src(x))
	return nil
}

func (e *Engine) evalIdent(id *ast.Ident, st *State) Value {
	obj := e.info().ObjectOf(id)
	switch o := obj.(type) {
	case *types.Var:
		if v, ok := st.vars[o]; ok {
			return v
		}
		if o.Pkg() != nil && o.Parent() == o.Pkg().Scope() {
			// package-level variable: read-only symbolic constant (frame: nothing in scope assigns to it)
			return e.globalVar(o)
		}
		unsup("unbound variable %s at %s", id.Name, e.src(id))
	case *types.Nil:
		return VTerm{T: mkConst("nil", SRef), Typ: types.Typ[types.UntypedNil]}
	case *types.Func:
		return VNamedFunc{Fn: o}
	case *types.Const:
		if v, ok := constTerm(o.Val(), o.Type(), e); ok {
			return v
		}
	}
	unsup("identifier %s (%T) at %s", id.Name, obj, e.src(id))
	return nil
}

func (e *Engine) globalVar(o *types.Var) Value {
	name := "g_" + sanitize(shortPkg(o.Pkg().Path())) + "_" + o.Name()
	switch u := o.Type().Underlying().(type) {
	case *types.Slice:
		return VSlice{Arr: mkConst(name+".arr", arraySort(SInt, e.elemSort(u.Elem()))), Len: mkConst(name+".len", SInt), Elem: u.Elem()}
	case *types.Map:
		// a package-level table (e.g. helper.kindToBits): an unknown but fixed map; every read of it is the same function of
		// the key (nothing in the module assigns to such tables: a write to one is out of the subset)
		if _, isSl := u.Elem().Underlying().(*types.Slice); !isSl {
			ks, vs, _, _ := e.mapSorts(u)
			e.notes["package-level map "+name+" treated as a fixed table"] = true
			return VMap{Has: mkConst(name+".has", arraySortK(ks, SBool)), Val: mkConst(name+".val", arraySortK(ks, vs)), Key: u.Key(), Elem: u.Elem()}
		}
	}
	t := mkConst(name, e.sortOf(o.Type()))
	if o.Type().String() == "error" {
		// package-level error values are initialised once with errors.New / fmt.Errorf and never nil
		e.globalErrs[name] = t
	}
	return VTerm{T: t, Typ: o.Type()}
}

func (e *Engine) evalBinary(ex *ast.BinaryExpr, st *State) Value {
	switch ex.Op {
	case token.LAND, token.LOR:
		l := term(e.eval(ex.X, st))
		// short-circuit: the right side has no effects in the supported subset (checked: no calls with effects)
		r := term(e.evalPure(ex.Y, st, l, ex.Op == token.LAND))
		if ex.Op == token.LAND {
			return VTerm{T: mkAnd(l, r), Typ: types.Typ[types.Bool]}
		}
		return VTerm{T: mkOr(l, r), Typ: types.Typ[types.Bool]}
	}
	lv := e.eval(ex.X, st)
	rv := e.eval(ex.Y, st)
	l, r := term(lv), term(rv)
	return VTerm{T: e.binop(ex.Op.String(), l, r, e.typeOf(ex), st, e.src(ex)), Typ: e.typeOf(ex)}
}

// evaluate the right operand of && / || under the guard (so that bounds obligations see the guard)
func (e *Engine) evalPure(x ast.Expr, st *State, guard *Term, pos bool) Value {
	n := len(st.pc)
	if pos {
		st.pc = append(st.pc, guard)
	} else {
		st.pc = append(st.pc, mkNot(guard))
	}
	v := e.eval(x, st)
	// drop the guard (and keep any assumption added meanwhile under the guard)
	extra := append([]*Term(nil), st.pc[n+1:]...)
	g := st.pc[n]
	st.pc = st.pc[:n]
	for _, a := range extra {
		st.pc = append(st.pc, mkImplies(g, a))
	}
	return v
}

func (e *Engine) binop(op string, l, r *Term, resT types.Type, st *State, where string) *Term {
	switch op {
	case "+", "-", "*":
		if l.Sort == SStr {
			unsup("string concatenation at %s", where)
		}
		res := mkArith(op, l, r)
		if n, ok := resT.(*types.Named); ok && n.Obj().Pkg() != nil && n.Obj().Pkg().Path() == "time" && n.Obj().Name() == "Duration" && res.Op != "int" {
			// time.Duration is an int64 count of nanoseconds: a product or sum that leaves the range wraps around
			// (about 292 years), turning a long wait or a long look-back window into a negative one
			lim := new(big.Int).Lsh(big.NewInt(1), 63)
			e.assert(st, mkAnd(mkCmp("<=", mkBigInt(new(big.Int).Neg(lim)), res), mkCmp("<", res, mkBigInt(lim))), "duration-in-int64-range", where, nil)
		}
		return res
	case "/":
		l, r = numUnify(l, r)
		if l.Sort == SInt {
			e.assert(st, mkNot(mkEq(r, mkInt(0))), "div-by-zero", where, nil)
			return e.truncDiv(l, r)
		}
		return mkArith("/", l, r)
	case "%":
		e.assert(st, mkNot(mkEq(r, mkInt(0))), "div-by-zero", where, nil)
		return e.truncMod(l, r)
	case "==", "!=":
		if a, b := numUnify(l, r); a.Sort != b.Sort {
			// interface value compared with a concrete value of another representation: outcome not modelled
			e.notes["comparison between an interface value and a concrete value is not modelled (arbitrary outcome) at "+where] = true
			return e.fresh("ifacecmp", SBool)
		}
		if op == "==" {
			return mkEq(l, r)
		}
		return mkNot(mkEq(l, r))
	case "<", "<=", ">", ">=":
		return mkCmp(op, l, r)
	}
	unsup("binary operator %s at %s", op, where)
	return nil
}

// Go's truncated division/modulo expressed with SMT's floor-style div/mod
func (e *Engine) truncDiv(a, b *Term) *Term {
	if a.Op == "int" && b.Op == "int" && a.Int.Sign() >= 0 && b.Int.Sign() > 0 {
		return mkIntDiv(a, b)
	}
	q := mkIntDiv(a, b)
	// SMT div rounds so that remainder is non-negative; Go truncates toward zero.
	exact := mkEq(mkIntMod(a, b), mkInt(0))
	neg := mkCmp("<", a, mkInt(0))
	adj := mkIte(mkCmp(">", b, mkInt(0)), mkArith("+", q, mkInt(1)), mkArith("-", q, mkInt(1)))
	return mkIte(mkOr(mkNot(neg), exact), q, adj)
}

func (e *Engine) truncMod(a, b *Term) *Term {
	if a.Op == "int" && b.Op == "int" && a.Int.Sign() >= 0 && b.Int.Sign() > 0 {
		return mkIntMod(a, b)
	}
	m := mkIntMod(a, b)
	neg := mkCmp("<", a, mkInt(0))
	absb := mkIte(mkCmp(">", b, mkInt(0)), b, mkNeg(b))
	return mkIte(mkOr(mkNot(neg), mkEq(m, mkInt(0))), m, mkArith("-", m, absb))
}

func (e *Engine) evalSelector(ex *ast.SelectorExpr, st *State) Value {
	// package-qualified identifier
	if id, ok := ex.X.(*ast.Ident); ok {
		if _, isPkg := e.info().ObjectOf(id).(*types.PkgName); isPkg {
			obj := e.info().ObjectOf(ex.Sel)
			switch o := obj.(type) {
			case *types.Const:
				if v, ok := constTerm(o.Val(), o.Type(), e); ok {
					return v
				}
			case *types.Func:
				return VNamedFunc{Fn: o}
			case *types.Var:
				return e.globalVar(o)
			}
			unsup("package member %s.%s", id.Name, ex.Sel.Name)
		}
	}
	sel := e.info().Selections[ex]
	if sel != nil && sel.Kind() != types.FieldVal {
		unsup("method value %s at %s", ex.Sel.Name, e.src(ex))
	}
	base := e.eval(ex.X, st)
	if el, isEl := base.(VElem); isEl {
		return e.elemField(el, ex.Sel.Name)
	}
	bt, ok := base.(VTerm)
	if !ok || bt.T.Sort != SRef {
		unsup("field access on %T at %s", base, e.src(ex))
	}
	if sel != nil && len(sel.Index()) > 1 {
		unsup("promoted field %s at %s", ex.Sel.Name, e.src(ex))
	}
	if _, isPtr := e.typeOf(ex.X).Underlying().(*types.Pointer); isPtr {
		// a pointer the executor itself knows may be nil — the zero value of a receive from an exhausted stream, of a
		// failed comma-ok assertion or of a map miss — is dereferenced: the guard of that value is an obligation
		// (pointers held in data are taken to be non-nil, as everywhere else)
		isNil := func(t *Term) bool { return t.Op == "const" && t.Name == "nil" }
		switch {
		case isNil(bt.T):
			e.assert(st, tFalse, "nil-dereference", e.src(ex), nil)
		case bt.T.Op == "ite" && len(bt.T.Args) == 3 && isNil(bt.T.Args[2]):
			e.assert(st, bt.T.Args[0], "nil-dereference", e.src(ex), nil)
		case bt.T.Op == "ite" && len(bt.T.Args) == 3 && isNil(bt.T.Args[1]):
			e.assert(st, mkNot(bt.T.Args[0]), "nil-dereference", e.src(ex), nil)
		}
	}
	return e.readField(st, bt, ex.Sel.Name)
}

func structOf(t types.Type) (*types.Struct, string) {
	if p, ok := t.Underlying().(*types.Pointer); ok {
		t = p.Elem()
	}
	name := "anon"
	if a, ok := t.(*types.Alias); ok {
		t = types.Unalias(a)
	}
	if n, ok := t.(*types.Named); ok {
		name = n.Obj().Name()
	}
	s, _ := t.Underlying().(*types.Struct)
	return s, name
}

func (e *Engine) readField(st *State, base VTerm, field string) Value {
	s, tname := structOf(base.Typ)
	if s == nil {
		unsup("field %s of non-struct %s", field, base.Typ)
	}
	var fv *types.Var
	for i := 0; i < s.NumFields(); i++ {
		if s.Field(i).Name() == field {
			fv = s.Field(i)
		}
	}
	if fv == nil {
		unsup("no field %s in %s", field, tname)
	}
	key := "fld:" + base.T.String() + "." + field
	ft := fv.Type()
	if a, ok := ft.(*types.Alias); ok {
		ft = types.Unalias(a)
	}
	switch u := ft.Underlying().(type) {
	case *types.Map:
		if v, ok := st.memV[key]; ok {
			return v
		}
		ks, vs, isSl, _ := e.mapSorts(u)
		nm := "fld_" + tname + "_" + field
		m := VMap{Has: mkApp(nm+"_has", arraySortK(ks, SBool), base.T), Val: mkApp(nm+"_val", arraySortK(ks, vs), base.T), Key: u.Key(), Elem: u.Elem()}
		if isSl {
			m.Len = mkApp(nm+"_len", arraySortK(ks, SInt), base.T)
			e.nfresh++
			b := mkVar(fmt.Sprintf("k$%d", e.nfresh), ks)
			st.assume(mkForall([]*Term{b}, mkCmp(">=", mkSelect(m.Len, b), mkInt(0)), [][]*Term{{mkSelect(m.Len, b)}}))
		}
		return m
	case *types.Slice:
		if v, ok := st.memV[key]; ok {
			return v
		}
		if sv := structValueElem(u.Elem()); sv != nil {
			nm := "fld_" + tname + "_" + field
			ln := mkApp(nm+"_len", SInt, base.T)
			st.assume(mkCmp(">=", ln, mkInt(0)))
			return VSlice{Len: ln, Elem: u.Elem(), Fields: e.structFields(sv, func(n string, fs Sort) *Term { return mkApp(nm+"_f_"+n+"__"+sortTag(fs), arraySort(SInt, fs), base.T) })}
		}
		es := e.elemSort(u.Elem())
		nm := "fld_" + tname + "_" + field + "__" + sortTag(es)
		ln := mkApp(nm+"_len", SInt, base.T)
		st.assume(mkCmp(">=", ln, mkInt(0)))
		return VSlice{Arr: mkApp(nm+"_arr", arraySort(SInt, es), base.T), Len: ln, Elem: u.Elem()}
	case *types.Signature:
		unsup("function-typed field %s", field)
	}
	if t, ok := st.mem[key]; ok {
		return e.wrap(t, ft)
	}
	so := e.sortOf(ft)
	return e.wrap(mkApp("fld_"+tname+"_"+field+"__"+sortTag(so), so, base.T), ft)
}

func (e *Engine) writeField(st *State, base VTerm, field string, v Value, where string) {
	rs := base.T.String()
	if e.published[rs] {
		unsup("write to field %s of an object after it was sent on a stream at %s", field, where)
	}
	if !e.localRefs[rs] && !e.modifiesOK[rs] && !e.modifiesFld[rs+"."+field] {
		e.staticObl("frame/write-"+field, where, false, "write to field "+field+" of "+rs+" which is neither local nor in a modifies clause", nil)
	}
	key := "fld:" + rs + "." + field
	switch vv := v.(type) {
	case VSlice:
		st.memV[key] = vv
	case VMap:
		st.memV[key] = vv
	case VStream:
		st.mem[key] = vv.ID
	case VTerm:
		// coerce
		s, _ := structOf(base.Typ)
		t := vv.T
		if s != nil {
			for i := 0; i < s.NumFields(); i++ {
				if s.Field(i).Name() == field && e.isRealType(s.Field(i).Type()) && t.Sort == SInt {
					t = toReal(t)
				}
			}
		}
		st.mem[key] = t
	default:
		unsup("store of %T into field %s", v, field)
	}
}

func (e *Engine) isRealType(t types.Type) bool {
	defer func() { recover() }()
	return e.sortOf(t) == SReal
}

func (e *Engine) evalComposite(cl *ast.CompositeLit, st *State) Value {
	t := e.typeOf(cl)
	switch u := t.Underlying().(type) {
	case *types.Struct:
		ref := e.fresh("obj_"+typeShort(t), SRef)
		e.localRefs[ref.String()] = true
		e.dynType[ref.String()] = types.NewPointer(t)
		e.noteAlloc(st, ref)
		if dn := dynTypeName(t); dn != "" {
			st.assume(mkEq(mkApp("dyntype", SInt, ref), typeTag(dn)))
		}
		base := VTerm{T: ref, Typ: t}
		given := map[string]Value{}
		skipped := map[string]bool{}
		evalField := func(name string, x ast.Expr) {
			defer func() {
				if r := recover(); r != nil {
					if us, ok := r.(unsupported); ok {
						// a field outside the subset (e.g. [][]int) is left unmodelled; reading it later is out of reach
						skipped[name] = true
						e.notes["field "+name+" of "+typeShort(t)+" not modelled: "+us.msg] = true
						return
					}
					panic(r)
				}
			}()
			given[name] = e.eval(x, st)
		}
		for i, el := range cl.Elts {
			if kv, ok := el.(*ast.KeyValueExpr); ok {
				evalField(kv.Key.(*ast.Ident).Name, kv.Value)
			} else {
				evalField(u.Field(i).Name(), el)
			}
		}
		for i := 0; i < u.NumFields(); i++ {
			f := u.Field(i)
			v, ok := given[f.Name()]
			if skipped[f.Name()] {
				continue
			}
			if !ok {
				if _, isSig := f.Type().Underlying().(*types.Signature); isSig {
					continue
				}
				if !e.typeModelled(f.Type()) {
					continue
				}
				v = e.zeroValue(f.Type())
			}
			if _, isNil := v.(VTerm); isNil && false {
				continue
			}
			e.writeField(st, base, f.Name(), v, e.src(cl))
		}
		return base
	case *types.Slice:
		es := e.elemSort(u.Elem())
		arr := e.fresh("lit.arr", arraySort(SInt, es))
		for i, el := range cl.Elts {
			if _, ok := el.(*ast.KeyValueExpr); ok {
				unsup("keyed slice literal")
			}
			v := e.eval(el, st)
			var et *Term
			if s, ok := v.(VStream); ok {
				et = s.ID
			} else {
				et = term(v)
			}
			arr = mkStore(arr, mkInt(int64(i)), et)
		}
		return VSlice{Arr: arr, Len: mkInt(int64(len(cl.Elts))), Elem: u.Elem()}
	}
	unsup("composite literal of %s at %s", t, e.src(cl))
	return nil
}

func (e *Engine) typeModelled(t types.Type) (ok bool) {
	defer func() {
		if r := recover(); r != nil {
			ok = false
		}
	}()
	e.zeroValue(t)
	return true
}

func typeShort(t types.Type) string {
	if p, ok := t.(*types.Pointer); ok {
		t = p.Elem()
	}
	if n, ok := t.(*types.Named); ok {
		return n.Obj().Name()
	}
	return "anon"
}

// allocation numbering (only when the contract under verification mentions fresh()): every allocation gets the next
// number of the ghost counter @alloc; a call through a contract advances the counter by an unknown non-negative
// amount; fresh(x) says x was numbered during the call. Objects numbered in disjoint intervals are distinct.
func (e *Engine) allocCounter(st *State) *Term {
	return st.getMem("@alloc", mkConst("alloc0", SInt))
}

func (e *Engine) noteAlloc(st *State, ref *Term) {
	if !e.trackAlloc {
		return
	}
	c := e.allocCounter(st)
	st.assume(mkEq(mkApp("alloc_id", SInt, ref), c))
	st.assume(mkNot(mkEq(ref, mkConst("nil", SRef))))
	st.mem["@alloc"] = mkArith("+", c, mkInt(1))
}

func (e *Engine) advanceAlloc(st *State) {
	if !e.trackAlloc {
		return
	}
	c := e.allocCounter(st)
	n := e.fresh("alloc", SInt)
	st.assume(mkCmp("<=", c, n))
	st.mem["@alloc"] = n
}
