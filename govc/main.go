package main

import (
	"encoding/json"
	"flag"
	"fmt"
	"os"
	"path/filepath"
	"regexp"
	"sort"
	"strings"
	"time"
)

func main() {
	if len(os.Args) < 2 {
		fmt.Println("usage: govc verify|dev ...")
		os.Exit(2)
	}
	switch os.Args[1] {
	case "verify":
		os.Exit(cmdVerify(os.Args[2:]))
	case "replay":
		os.Exit(cmdReplay(os.Args[2:]))
	case "genctor":
		os.Exit(cmdGenCtor(os.Args[2:]))
	default:
		fmt.Println("unknown command", os.Args[1])
		os.Exit(2)
	}
}

var regexpClass = regexp.MustCompile(`class="([^"]*)"`)

func hasTag(tags []string, t string) bool {
	for _, x := range tags {
		if x == t {
			return true
		}
	}
	return false
}

type knownFinding struct {
	Prop, Obl, Class, What string
}

func readKnown(path string) ([]knownFinding, []string) {
	data, err := os.ReadFile(path)
	if err != nil {
		return nil, nil
	}
	var ks []knownFinding
	var fixed []string
	for _, line := range strings.Split(string(data), "\n") {
		line = strings.TrimSpace(line)
		if strings.HasPrefix(line, "fixed:") {
			fixed = append(fixed, line)
			continue
		}
		if !strings.HasPrefix(line, "known:") {
			continue
		}
		body := strings.TrimSpace(strings.TrimPrefix(line, "known:"))
		what := ""
		if k := strings.Index(body, "::"); k >= 0 {
			what = strings.TrimSpace(body[k+2:])
			body = body[:k]
		}
		kf := knownFinding{What: what}
		// fields: property=.. obligation=.. class="..."
		if m := regexpClass.FindStringSubmatch(body); m != nil {
			kf.Class = m[1]
			body = strings.Replace(body, m[0], "", 1)
		}
		for _, f := range strings.Fields(body) {
			kv := strings.SplitN(f, "=", 2)
			if len(kv) != 2 {
				continue
			}
			switch kv[0] {
			case "property":
				kf.Prop = kv[1]
			case "obligation":
				kf.Obl = kv[1]
			}
		}
		ks = append(ks, kf)
	}
	return ks, fixed
}

func oblOK(o *Obligation) bool {
	if o.Kind == "cover" {
		return o.Result != "unsat"
	}
	return o.Result == "unsat" || o.Result == "static-ok"
}

func cmdVerify(args []string) int {
	fs := flag.NewFlagSet("verify", flag.ExitOnError)
	repo := fs.String("repo", "/repo", "repository root")
	cdir := fs.String("contracts", "", "contract root (default: repo)")
	prop := fs.String("prop", "", "property id (only functions/clauses tagged with it)")
	fn := fs.String("func", "", "only this function key (comma separated)")
	tier := fs.String("tier", "quick", "quick|thorough")
	verbose := fs.Bool("v", false, "verbose")
	keep := fs.String("keep", "", "keep SMT files in this directory")
	evid := fs.String("evidence", "", "write evidence JSON here")
	replayDir := fs.String("replays", "", "directory for replay files")
	noCone := fs.Bool("nocone", false, "do not verify the callees the property's functions rely on")
	knownPath := fs.String("known", "/verif/known_findings.txt", "known findings file")
	level := fs.String("level", "proof", "evidence level")
	fs.Parse(args)
	currentProp = *prop
	if currentProp == "ALL" {
		currentProp = ""
	}
	if *cdir == "" {
		*cdir = *repo
	}
	seed := 0
	fmt.Sscan(os.Getenv("VERIF_SEED"), &seed)
	t0 := time.Now()
	w, err := loadWorld(*repo, *cdir)
	if err != nil {
		fmt.Println("load error:", err)
		if *prop != "" {
			// a tree that does not load cannot be verified: report as violation of the property under check
			fmt.Printf("VIOLATION property=%s replay=%s no-failing-input-found\n", *prop, writeReplay(*replayDir, *prop, "load", map[string]interface{}{"obligation": "load", "error": err.Error()}))
		}
		return 1
	}
	loadT := time.Since(t0)
	eng := newEngine(w)
	eng.macros = map[string]*Macro{}
	for _, m := range fileMacros {
		eng.macros[m.Name] = m
	}
	eng.installStreamDefs()
	var keys []string
	for k, fi := range w.Funcs {
		if fi.Contract == nil || fi.Contract.Trusted {
			continue
		}
		if *fn != "" {
			ok := false
			for _, f := range strings.Split(*fn, ",") {
				if f == k {
					ok = true
				}
			}
			if !ok {
				continue
			}
		}
		if *prop == "C09" {
			// every indicator / strategy method under contract
			pk := strings.SplitN(k, ".", 2)[0]
			if !(pk == "trend" || pk == "momentum" || pk == "volatility" || pk == "volume" || strings.HasPrefix(pk, "strategy") ||
				strings.HasPrefix(k, "helper.Csv.") || strings.HasPrefix(k, "backtest.Backtest.")) {
				// ... plus the two other anchors of the property: the CSV codec object and the backtester (for these the
				// declared frame - modifies c.columns, modifies b.report - is what may be written; anything else is state
				// kept on the instance)
				continue
			}
		} else if *prop != "" && !hasTag(fi.Contract.tags(), *prop) {
			continue
		}
		keys = append(keys, k)
	}
	sort.Strings(keys)
	var reports []*FuncReport
	var all []*Obligation
	for _, k := range keys {
		rep := eng.verifyFunc(w.Funcs[k])
		reports = append(reports, rep)
		for _, o := range rep.Obls {
			if *prop != "" && len(o.Tags) > 0 && !hasTag(o.Tags, *prop) {
				continue
			}
			if *prop == "C09" && !hasTag(o.Tags, "C09") {
				continue
			}
			all = append(all, o)
		}
	}
	// the callees whose contracts those proofs rest on are verified in the same run (everything they export)
	coneN := 0
	verified := map[string]bool{}
	for _, k := range keys {
		verified[k] = true
	}
	if *prop != "" && *prop != "C09" && *fn == "" && !*noCone {
		for _, k := range w.cone(keys) {
			verified[k] = true
			rep := eng.verifyFunc(w.Funcs[k])
			rep.Key = k
			reports = append(reports, rep)
			coneN++
			for _, o := range rep.Obls {
				if strings.Contains(o.Name, "/guarantees") || strings.HasPrefix(o.Kind, "frame") || o.Kind == "confinement" {
					continue // not handed to callers
				}
				o.Cone = true
				all = append(all, o)
			}
		}
	}
	_ = coneN
	if (isBstProp(*prop) || *prop == "") && (*fn == "" || strings.Contains(*fn, "helper.Bst.searchNode")) {
		if fi := w.Funcs["helper.Bst.searchNode"]; fi != nil {
			eng.fi = fi
			eng.frames = []frame{{pkg: fi.Pkg, fi: fi}}
		}
		rep := eng.bstCompareObligations()
		reports = append(reports, rep)
		all = append(all, rep.Obls...)
	}
	// relational clauses (self-composition): one report per function and relation name
	for _, k := range keys {
		fi := w.Funcs[k]
		for _, label := range relLabels(fi.Contract) {
			rep := eng.verifyRel(fi, label)
			reports = append(reports, rep)
			for _, o := range rep.Obls {
				if *prop != "" && len(o.Tags) > 0 && !hasTag(o.Tags, *prop) {
					continue
				}
				if *prop == "C09" {
					continue
				}
				all = append(all, o)
			}
		}
	}
	// behavioural subtyping: every implementation refines the contracts of the interfaces it implements
	for _, rp := range w.refinePairs() {
		if *fn != "" && !strings.Contains(","+*fn+",", ","+rp.Key+",") && !strings.Contains(","+*fn+",", ",refine,") {
			continue
		}
		if *prop == "C09" || (*prop != "" && !hasTag(rp.Iface.tags(), *prop)) {
			continue
		}
		rep := eng.verifyRefine(rp)
		reports = append(reports, rep)
		for _, o := range rep.Obls {
			if *prop != "" && len(o.Tags) > 0 && !hasTag(o.Tags, *prop) {
				continue
			}
			all = append(all, o)
		}
		// the refinement argument rests on the implementation's own contract: verify it (and what it calls) in this run
		if *prop != "" && *fn == "" && !*noCone && rp.Impl.Contract != nil && !rp.Impl.Contract.Trusted {
			extra := append([]string{rp.Impl.Key}, w.cone([]string{rp.Impl.Key})...)
			for _, k := range extra {
				if verified[k] {
					continue
				}
				verified[k] = true
				r2 := eng.verifyFunc(w.Funcs[k])
				reports = append(reports, r2)
				for _, o := range r2.Obls {
					if strings.Contains(o.Name, "/guarantees") || strings.HasPrefix(o.Kind, "frame") || o.Kind == "confinement" {
						continue
					}
					o.Cone = true
					all = append(all, o)
				}
			}
		}
	}
	// lemmas used by the selected functions (or all lemmas when no filter)
	for _, name := range sortedKeys(w.Lemmas) {
		lc := w.Lemmas[name]
		if *fn != "" && !strings.Contains(","+*fn+",", ",lemma."+name+",") {
			continue
		}
		if *prop != "" && !hasTag(lc.tags(), *prop) {
			continue
		}
		rep := eng.verifyLemma(name, lc)
		reports = append(reports, rep)
		all = append(all, rep.Obls...)
	}
	genT := time.Since(t0) - loadT
	dir := *keep
	if dir == "" {
		base := os.Getenv("XDG_CACHE_HOME")
		if base == "" {
			base = filepath.Join(os.Getenv("HOME"), ".cache")
		}
		dir = filepath.Join(base, "govc", fmt.Sprintf("run%d", os.Getpid()))
		defer os.RemoveAll(dir)
	}
	os.MkdirAll(dir, 0o755)
	timeout := 45 * time.Second
	if *tier == "thorough" {
		timeout = 180 * time.Second
	}
	known, fixed := readKnown(*knownPath)
	_ = fixed
	for _, o := range all {
		for _, k := range known {
			if k.Obl == o.Name {
				o.ShortTimeout = true
			}
		}
	}
	noSecondPass = map[string]bool{}
	for _, k := range known {
		// a listed finding that stays undecided is expected to: no second attempt
		noSecondPass[k.Obl] = true
	}
	dischargeAll(all, dir, timeout, 14)
	solveT := time.Since(t0) - loadT - genT

	violations := 0
	nd := 0
	solverSecs := 0.0
	bySolver := map[string]int{}
	var failed []*Obligation
	for _, o := range all {
		solverSecs += o.Time
		if oblOK(o) {
			nd++
			if o.Static {
				bySolver["static"]++
			} else {
				bySolver[o.Solver]++
			}
		} else {
			failed = append(failed, o)
		}
		if *verbose || !oblOK(o) {
			status := "ok  "
			if !oblOK(o) {
				status = "FAIL"
			}
			fmt.Printf("%s %-70s %-10s %-7s %.2fs  %s %s\n", status, o.Name, o.Result, o.Solver, o.Time, o.Where, o.Detail)
			if !oblOK(o) && o.Model != "" && *verbose {
				fmt.Println(indent(o.Model, "      "))
			}
		}
	}
	var outOfReach []string
	for _, rep := range reports {
		if rep.Status == "out-of-reach" {
			outOfReach = append(outOfReach, rep.Key+": "+rep.Reason)
			fmt.Printf("OUT-OF-REACH %s: %s\n", rep.Key, rep.Reason)
		}
	}
	pid := *prop
	if pid == "" {
		pid = "ALL"
	}
	knownHit := map[string]bool{}
	nKnown := 0
	// replay: for every function with an undischarged (not known) obligation, search a concrete failing input on the real code
	isKnownObl := func(name string) bool {
		for _, k := range known {
			if k.Obl == name {
				return true
			}
		}
		return false
	}
	replayOf := map[string]*ReplayResult{}
	{
		need := map[string]bool{}
		for _, o := range failed {
			if !isKnownObl(o.Name) {
				need[o.Func] = true
			}
		}
		for _, r := range outOfReach {
			need[strings.SplitN(r, ":", 2)[0]] = true
		}
		var keys []string
		for k := range need {
			if w.Funcs[k] != nil && w.Funcs[k].Contract != nil {
				keys = append(keys, k)
			}
		}
		sort.Strings(keys)
		if len(keys) > 12 {
			keys = keys[:12]
		}
		ncases := 1500
		if *tier == "thorough" {
			ncases = 6000
		}
		for i, r := range replayAll(w, keys, ncases, seed, 8) {
			replayOf[keys[i]] = r
		}
	}
	machineReplay := map[string]interface{}{}
	for _, o := range failed {
		if o.Kind == "machine" && o.Model != "" && !isKnownObl(o.Name) && len(machineReplay) < 2 {
			if info, failedOnReal := eng.bstReplay(o, seed); info != nil && failedOnReal {
				machineReplay[o.Name] = info
			}
		}
	}
	replayInfo := func(fn string) (interface{}, string) {
		if strings.HasPrefix(fn, "@") {
			if x, ok := machineReplay[fn[1:]]; ok {
				return x, ""
			}
			return nil, " no-failing-input-found"
		}
		r := replayOf[fn]
		if r == nil {
			return nil, " no-failing-input-found"
		}
		for _, f := range r.Failures {
			if isKnownObl(f.Label) {
				continue
			}
			return map[string]interface{}{"function": fn, "violated_clause": f.Label, "clause_text": f.Text, "kind": f.Kind, "config": f.Config, "inputs": f.Inputs, "observed_outputs": f.Outputs, "witness": f.Witness,
				"how": "generated in-package test run with go test -overlay against /repo's working tree; " + fmt.Sprint(r.Evaluated) + " admissible cases evaluated"}, ""
		}
		return map[string]interface{}{"function": fn, "supported": r.Supported, "reason": r.Reason, "evaluated": r.Evaluated, "error": r.Error}, " no-failing-input-found"
	}
	for _, o := range failed {
		isKnown := false
		for _, k := range known {
			if k.Obl == o.Name && (k.Prop == pid || pid == "ALL" || o.Cone) {
				isKnown = true
				if !knownHit[k.Obl] {
					knownHit[k.Obl] = true
					fmt.Printf("KNOWN-FINDING: property=%s %s: %s\n", k.Prop, k.Obl, k.What)
				}
			}
		}
		if isKnown {
			nKnown++
			continue
		}
		violations++
		path := writeReplay(*replayDir, pid, o.Name, map[string]interface{}{
			"obligation": o.Name, "function": o.Func, "kind": o.Kind, "where": o.Where, "result": o.Result, "solver": o.Solver,
			"solver_output_model": o.Model, "candidate_model_qf_relaxation": o.CandModel, "detail": o.Detail, "goal": o.Goal.String(), "failing_input": func() interface{} { x, _ := replayInfo(replayKey(o)); return x }(),
		})
		_, suffix := replayInfo(replayKey(o))
		fmt.Printf("VIOLATION property=%s replay=%s%s\n", pid, path, suffix)
	}
	for _, r := range outOfReach {
		violations++
		path := writeReplay(*replayDir, pid, "out-of-reach-"+strings.SplitN(r, ":", 2)[0], map[string]interface{}{
			"obligation": strings.SplitN(r, ":", 2)[0] + "/in-reach", "detail": r, "failing_input": func() interface{} { x, _ := replayInfo(strings.SplitN(r, ":", 2)[0]); return x }(),
			"note": "the function under contract left the verifier's subset or its contract no longer matches the code; every obligation of the function is undischarged",
		})
		_, suffix := replayInfo(strings.SplitN(r, ":", 2)[0])
		fmt.Printf("VIOLATION property=%s replay=%s%s\n", pid, path, suffix)
	}
	var bounded []map[string]interface{}
	if isBstProp(*prop) && *fn == "" {
		ml := 6
		if *tier == "thorough" {
			ml = 7
		}
		rs, errs := eng.runBstBounded(ml)
		if errs != "" {
			violations++
			path := writeReplay(*replayDir, pid, "helper.Bst_bounded-histories", map[string]interface{}{"obligation": "helper.Bst/bounded-histories", "detail": errs})
			fmt.Printf("VIOLATION property=%s replay=%s no-failing-input-found\n", pid, path)
		}
		for _, r := range rs {
			if strings.Contains(r.Type, "chains-of-") {
				bounded = append(bounded, map[string]interface{}{"label": "bounded", "what": "helper.Bst[" + r.Type + "] list-shaped trees: ascending / descending / converging zig-zag insert orders x the same three removal orders; after every operation Contains of the value touched, Min and Max vs multiset", "branch_length": 16 * ml, "histories": r.Histories, "steps_checked": r.Steps, "failure": r.Failure})
			} else {
				bounded = append(bounded, map[string]interface{}{"label": "bounded", "what": "helper.Bst[" + r.Type + "] Insert/Remove/Min/Max histories of every length up to the bound vs multiset (each operation result; Contains of every value, Min and Max at the end of every history)", "max_history_length": map[bool]int{true: ml + 2, false: ml}[strings.Contains(r.Type, "3-values")], "domain_size": map[bool]int{true: 3, false: 4}[strings.Contains(r.Type, "3-values")], "histories": r.Histories, "steps_checked": r.Steps, "failure": r.Failure})
			}
			if r.Failure != "" {
				violations++
				path := writeReplay(*replayDir, pid, "helper.Bst_bounded-histories_"+r.Type, map[string]interface{}{"obligation": "helper.Bst/bounded-histories/" + r.Type, "failing_input": map[string]interface{}{"type": r.Type, "history": r.Failure}})
				fmt.Printf("VIOLATION property=%s replay=%s\n", pid, path)
			}
		}
	}
	// thorough tier: runtime assertion checking of the same contracts on the real code. Every function of the property
	// (not the cone) is run on generated inputs and its requires/ensures/offers/guarantees are evaluated by the
	// embedded interpreter; a clause that fails on a concrete input although its proof went through would mean the
	// verifier's model departs from the code (reals vs floats beyond the tolerance, a wrong stage contract, ...).
	if *tier == "thorough" && *prop != "" && *prop != "C03" && *prop != "C09" && *fn == "" {
		var rkeys []string
		for _, k := range keys {
			rkeys = append(rkeys, k)
		}
		n := 300
		evaluated, funcs := 0, 0
		for _, r := range replayAll(w, rkeys, n, seed, 8) {
			if !r.Supported {
				continue
			}
			funcs++
			evaluated += r.Evaluated
			fi := w.Funcs[r.Function]
			for _, f := range r.Failures {
				if isKnownObl(f.Label) {
					continue
				}
				if f.Kind == "leak" && fi != nil && fi.Contract != nil && len(fi.Contract.byKind("borrows", "")) > 0 {
					continue // a borrowing stage leaves the rest of its input to its caller by contract
				}
				// only clauses of this property (unlabelled kinds hang/leak/panic count for every property)
				if f.Kind == "ensures" || f.Kind == "offers" || f.Kind == "guarantees" || f.Kind == "requires" {
					tagged := false
					if fi != nil && fi.Contract != nil {
						for _, cl := range fi.Contract.Clauses {
							if cl.Where == f.Clause && (len(cl.Tags) == 0 || hasTag(cl.Tags, *prop)) {
								tagged = true
							}
						}
					}
					if !tagged {
						continue
					}
				}
				violations++
				path := writeReplay(*replayDir, pid, r.Function+"_runtime-"+f.Kind, map[string]interface{}{"obligation": r.Function + "/runtime/" + f.Label, "failing_input": map[string]interface{}{"function": r.Function, "kind": f.Kind, "clause_text": f.Text, "config": f.Config, "inputs": f.Inputs, "observed_outputs": f.Outputs, "witness": f.Witness}})
				fmt.Printf("VIOLATION property=%s replay=%s\n", pid, path)
				break
			}
		}
		bounded = append(bounded, map[string]interface{}{"label": "bounded", "what": "runtime assertion checking (thorough tier): the contracts of the property's functions evaluated on the real code for generated inputs; complements the proofs, not counted as proved", "functions": funcs, "cases_evaluated": evaluated, "cases_per_function": n})
	}
	if *prop == "C03" && *fn == "" {
		var keys []string
		for _, rep := range reports {
			fi := w.Funcs[rep.Key]
			if fi == nil || fi.Contract == nil || len(fi.Contract.byKind("borrows", "")) > 0 {
				continue // a borrowing stage (Head) leaves the rest of its input to its caller by contract
			}
			keys = append(keys, rep.Key)
		}
		n := 40
		if *tier == "thorough" {
			n = 1200
		}
		evaluated, funcs := 0, 0
		for _, r := range replayAll(w, keys, n, seed, 14) {
			if !r.Supported {
				continue
			}
			funcs++
			evaluated += r.Evaluated
			for _, f := range r.Failures {
				if f.Kind != "hang" && f.Kind != "leak" && f.Kind != "panic" && f.Kind != "crash" {
					continue
				}
				violations++
				path := writeReplay(*replayDir, pid, r.Function+"_bounded-"+f.Kind, map[string]interface{}{"obligation": r.Function + "/bounded/" + f.Kind, "failing_input": map[string]interface{}{"function": r.Function, "kind": f.Kind, "what": f.Text, "config": f.Config, "inputs": f.Inputs, "observed_outputs": f.Outputs}})
				fmt.Printf("VIOLATION property=%s replay=%s\n", pid, path)
				break
			}
		}
		bounded = append(bounded, map[string]interface{}{"label": "bounded", "what": "hang / goroutine-leak / panic search on the real code: every pipeline function run on generated small inputs (unbuffered producers, one independent reader per output, 2 s hang timer, goroutine census 300 ms after the outputs were drained) - covers capacity-dependent deadlocks, which the deductive Kahn model cannot express", "functions": funcs, "cases_evaluated": evaluated, "cases_per_function": n})
	}
	boundedGlobal = bounded
	fmt.Printf("functions=%d obligations=%d discharged=%d violations=%d load=%.1fs gen=%.1fs solve=%.1fs\n", len(reports), len(all), nd, violations, loadT.Seconds(), genT.Seconds(), solveT.Seconds())
	if *verbose {
		for _, rep := range reports {
			for _, n := range rep.Notes {
				fmt.Printf("note %s: %s\n", rep.Key, n)
			}
		}
	}
	if len(all) == 0 {
		fmt.Println("no obligations generated: vacuous run")
		violations++
	}
	if *evid != "" {
		writeEvidence(*evid, pid, *tier, seed, *level, w, reports, all[:len(all)-nKnown], nd, violations, bySolver, solverSecs, time.Since(t0).Seconds(), known, knownHit)
	}
	if violations > 0 {
		return 1
	}
	return 0
}

var boundedGlobal []map[string]interface{}

func replayKey(o *Obligation) string {
	if o.Kind == "machine" {
		return "@" + o.Name
	}
	return o.Func
}

func writeReplay(dir, prop, name string, body map[string]interface{}) string {
	if dir == "" {
		dir = "/verif/replays"
	}
	d := filepath.Join(dir, prop)
	os.MkdirAll(d, 0o755)
	p := filepath.Join(d, sanitize(name)+".json")
	body["property"] = prop
	b, _ := json.MarshalIndent(body, "", " ")
	os.WriteFile(p, b, 0o644)
	return p
}

func writeEvidence(path, prop, tier string, seed int, level string, w *World, reports []*FuncReport, all []*Obligation, nd, violations int, bySolver map[string]int, solverSecs, wall float64, known []knownFinding, knownHit map[string]bool) {
	var funcs []map[string]interface{}
	trusted := map[string]bool{}
	assumptions := map[string]bool{
		"govc's reading of Go (forward symbolic execution of the typed AST of /repo's working tree)": true,
		"SMT solvers z3 4.8.12 / z3 5.1.0 / cvc5 1.0.3 are sound":                                    true,
		"Kahn semantics: every channel has one writer and one reader, stages only block on channel operations; contracts describe complete histories assuming the network does not deadlock; channel capacities are dropped": true,
		"machine arithmetic treated as mathematical: int as Int, float32/64 and helper.Number type parameters as Real (no rounding, NaN, Inf, overflow)":                                                                     true,
		"goroutines of one function are executed sequentially in spawn order (histories are schedule independent under the Kahn assumption)":                                                                                 true,
	}
	for _, rep := range reports {
		f := map[string]interface{}{"function": rep.Key, "status": rep.Status, "obligations": len(rep.Obls)}
		if rep.Reason != "" {
			f["reason"] = rep.Reason
		}
		funcs = append(funcs, f)
		for _, n := range rep.Notes {
			switch {
			case strings.HasPrefix(n, "trusted contract:"), strings.HasPrefix(n, "assumed external:"):
				trusted[n] = true
			case strings.HasPrefix(n, "inlined:"), strings.HasPrefix(n, "callee contract:"):
			default:
				assumptions[n] = true
			}
		}
	}
	var samples []map[string]interface{}
	step := len(all)/6 + 1
	for i := 0; i < len(all); i += step {
		o := all[i]
		samples = append(samples, map[string]interface{}{"obligation": o.Name, "kind": o.Kind, "where": o.Where, "result": o.Result, "solver": o.Solver, "seconds": o.Time, "goal": truncate(o.Goal.String(), 300), "hypotheses": len(o.Hyps)})
	}
	var kf []string
	for _, k := range known {
		if knownHit[k.Obl] {
			kf = append(kf, k.Obl+": "+k.What)
		}
	}
	var inl, callee []string
	seen := map[string]bool{}
	for _, rep := range reports {
		for _, n := range rep.Notes {
			if seen[n] {
				continue
			}
			seen[n] = true
			if strings.HasPrefix(n, "inlined:") {
				inl = append(inl, strings.TrimPrefix(n, "inlined: "))
			}
			if strings.HasPrefix(n, "callee contract:") {
				callee = append(callee, strings.TrimPrefix(n, "callee contract: "))
			}
		}
	}
	ev := map[string]interface{}{
		"property_id": prop, "tier": tier, "seed": seed, "level": level, "wall_s": wall, "violations": violations,
		"coverage": map[string]interface{}{
			"obligations": len(all), "discharged": nd,
			"checker_cmd":                             "bin/govc verify -prop " + prop + " -tier " + tier,
			"trusted_base":                            sortedKeys(trusted),
			"functions_under_contract":                funcs,
			"inlined_leaf_functions":                  inl,
			"callee_contracts_used":                   callee,
			"discharged_by_backend":                   bySolver,
			"solver_seconds":                          solverSecs,
			"known_findings_set_aside":                kf,
			"bounded_stand_ins_not_counted_as_proved": boundedGlobal,
			"samples":                                 samples,
			"explanation":                             "obligations generated from /repo's working tree by forward symbolic execution against the //@ contracts in */zz_contracts_verif.go; each discharged by an SMT back end (unsat of hypotheses and negated goal); cover obligations (vacuity guards) must not be unsat",
		},
		"assumptions": sortedKeys(assumptions),
	}
	os.MkdirAll(filepath.Dir(path), 0o755)
	b, _ := json.MarshalIndent(ev, "", " ")
	os.WriteFile(path, b, 0o644)
}

func truncate(s string, n int) string {
	if len(s) > n {
		return s[:n] + "…"
	}
	return s
}

func indent(s, p string) string {
	return p + strings.ReplaceAll(strings.TrimRight(s, "\n"), "\n", "\n"+p)
}

func cmdReplay(args []string) int {
	fs := flag.NewFlagSet("replay", flag.ExitOnError)
	repo := fs.String("repo", "/repo", "repository root")
	fn := fs.String("func", "", "function keys (comma separated); empty = all under contract")
	prop := fs.String("prop", "", "only functions tagged with this property")
	n := fs.Int("n", 600, "cases per function")
	par := fs.Int("par", 8, "parallel harness runs")
	fs.Parse(args)
	seed := 0
	fmt.Sscan(os.Getenv("VERIF_SEED"), &seed)
	w, err := loadWorld(*repo, *repo)
	if err != nil {
		fmt.Println("load error:", err)
		return 2
	}
	var keys []string
	for k, fi := range w.Funcs {
		if fi.Contract == nil || fi.Contract.Trusted && *fn == "" {
			continue
		}
		if *fn != "" && !strings.Contains(","+*fn+",", ","+k+",") {
			continue
		}
		if *prop != "" && !hasTag(fi.Contract.tags(), *prop) {
			continue
		}
		keys = append(keys, k)
	}
	sort.Strings(keys)
	results := replayAll(w, keys, *n, seed, *par)
	bad := 0
	for _, r := range results {
		switch {
		case !r.Supported:
			fmt.Printf("n/a   %-55s %s\n", r.Function, r.Reason)
		case r.Error != "":
			fmt.Printf("ERROR %-55s %s\n", r.Function, truncate(r.Error, 400))
			bad++
		case len(r.Failures) > 0:
			bad++
			f := r.Failures[0]
			b, _ := json.Marshal(map[string]interface{}{"config": f.Config, "inputs": f.Inputs, "outputs": f.Outputs, "witness": f.Witness})
			fmt.Printf("FAIL  %-55s %s %s [%s] %s\n", r.Function, f.Kind, f.Clause, f.Text, truncate(string(b), 700))
		default:
			fmt.Printf("ok    %-55s evaluated=%d inadmissible=%d skipped-clauses=%d %.1fs\n", r.Function, r.Evaluated, r.Inadmiss, len(r.ClauseSkip), r.Seconds)
		}
	}
	if bad > 0 {
		return 1
	}
	return 0
}

func replayAll(w *World, keys []string, n, seed, par int) []*ReplayResult {
	results := make([]*ReplayResult, len(keys))
	sem := make(chan struct{}, par)
	done := make(chan int)
	for i, k := range keys {
		go func(i int, k string) {
			sem <- struct{}{}
			defer func() { <-sem; done <- i }()
			eng := newEngine(w)
			eng.macros = map[string]*Macro{}
			for _, m := range fileMacros {
				eng.macros[m.Name] = m
			}
			fi := w.Funcs[k]
			eng.fi = fi
			eng.frames = []frame{{pkg: fi.Pkg, fi: fi}}
			results[i] = eng.runReplay(fi, n, seed)
		}(i, k)
	}
	for range keys {
		<-done
	}
	return results
}
