package main

import (
	"encoding/json"
	"flag"
	"fmt"
	"os"
	"path/filepath"
	"sort"
	"strings"
	"time"
)

func main() {
	if len(os.Args) < 2 {
		fmt.Println("usage: govc verify|dev ...")
		os.Exit(2)
	}
	switch os.Args[1] {
	case "verify":
		os.Exit(cmdVerify(os.Args[2:]))
	default:
		fmt.Println("unknown command", os.Args[1])
		os.Exit(2)
	}
}

func hasTag(tags []string, t string) bool {
	for _, x := range tags {
		if x == t {
			return true
		}
	}
	return false
}

func cmdVerify(args []string) int {
	fs := flag.NewFlagSet("verify", flag.ExitOnError)
	repo := fs.String("repo", "/repo", "repository root")
	cdir := fs.String("contracts", "", "contract root (default: repo)")
	prop := fs.String("prop", "", "property id (only functions/clauses tagged with it)")
	fn := fs.String("func", "", "only this function key (comma separated)")
	tier := fs.String("tier", "quick", "quick|thorough")
	verbose := fs.Bool("v", false, "verbose")
	keep := fs.String("keep", "", "keep SMT files in this directory")
	evid := fs.String("evidence", "", "write evidence JSON here")
	fs.Parse(args)
	if *cdir == "" {
		*cdir = *repo
	}
	t0 := time.Now()
	w, err := loadWorld(*repo, *cdir)
	if err != nil {
		fmt.Println("load error:", err)
		return 2
	}
	loadT := time.Since(t0)
	eng := newEngine(w)
	eng.macros = map[string]*Macro{}
	for _, m := range fileMacros {
		eng.macros[m.Name] = m
	}
	var keys []string
	for k, fi := range w.Funcs {
		if fi.Contract == nil || fi.Contract.Trusted {
			continue
		}
		if *fn != "" {
			ok := false
			for _, f := range strings.Split(*fn, ",") {
				if f == k {
					ok = true
				}
			}
			if !ok {
				continue
			}
		}
		if *prop != "" && !hasTag(fi.Contract.tags(), *prop) {
			continue
		}
		keys = append(keys, k)
	}
	sort.Strings(keys)
	var reports []*FuncReport
	var all []*Obligation
	for _, k := range keys {
		rep := eng.verifyFunc(w.Funcs[k])
		reports = append(reports, rep)
		for _, o := range rep.Obls {
			if *prop != "" && len(o.Tags) > 0 && !hasTag(o.Tags, *prop) {
				continue
			}
			all = append(all, o)
		}
	}
	genT := time.Since(t0) - loadT
	dir := *keep
	if dir == "" {
		base := os.Getenv("XDG_CACHE_HOME")
		if base == "" {
			base = filepath.Join(os.Getenv("HOME"), ".cache")
		}
		dir = filepath.Join(base, "govc", fmt.Sprintf("run%d", os.Getpid()))
		defer os.RemoveAll(dir)
	}
	os.MkdirAll(dir, 0o755)
	timeout := 20 * time.Second
	if *tier == "thorough" {
		timeout = 120 * time.Second
	}
	dischargeAll(all, dir, timeout, 10)
	solveT := time.Since(t0) - loadT - genT
	fails := 0
	for _, rep := range reports {
		if rep.Status == "out-of-reach" {
			fmt.Printf("OUT-OF-REACH %s: %s\n", rep.Key, rep.Reason)
			fails++
		}
	}
	nd := 0
	for _, o := range all {
		ok := o.Result == "unsat" || o.Result == "static-ok"
		if o.Kind == "cover" {
			ok = o.Result != "unsat"
		}
		if ok {
			nd++
		}
		if !ok || *verbose {
			status := "ok  "
			if !ok {
				status = "FAIL"
				fails++
			}
			fmt.Printf("%s %-70s %-10s %-7s %.2fs  %s %s\n", status, o.Name, o.Result, o.Solver, o.Time, o.Where, o.Detail)
			if !ok && o.Model != "" && *verbose {
				fmt.Println(indent(o.Model, "      "))
			}
		}
	}
	fmt.Printf("functions=%d obligations=%d discharged=%d failures=%d load=%.1fs gen=%.1fs solve=%.1fs\n", len(reports), len(all), nd, fails, loadT.Seconds(), genT.Seconds(), solveT.Seconds())
	if *verbose {
		for _, rep := range reports {
			for _, n := range rep.Notes {
				fmt.Printf("note %s: %s\n", rep.Key, n)
			}
		}
	}
	if *evid != "" {
		b, _ := json.MarshalIndent(map[string]interface{}{"functions": len(reports), "obligations": len(all), "discharged": nd}, "", " ")
		os.WriteFile(*evid, b, 0o644)
	}
	if fails > 0 {
		return 1
	}
	return 0
}

func indent(s, p string) string {
	return p + strings.ReplaceAll(strings.TrimRight(s, "\n"), "\n", "\n"+p)
}
