package main

import (
	"fmt"
	"go/ast"
	"go/types"
	"strings"
)

// ---------------------------------------------------------------------------------------------
// symbolic values

type Value interface{}

type VTerm struct { // scalar: Int / Real / Bool / uninterpreted / Ref
	T   *Term
	Typ types.Type
}
type VStream struct {
	ID   *Term // Int
	Elem types.Type
}
type VSlice struct {
	Arr  *Term // (Array Int X); unused for slices of struct values
	Len  *Term
	Elem types.Type
	// slice of struct values: one array per field (struct of arrays); elements are copied by value, never aliased
	Fields map[string]*Term
}

// element of a slice of struct values (a value, i.e. a snapshot: later writes to the slice do not affect it)
type VElem struct {
	Slice VSlice
	Idx   *Term
}

func structValueElem(t types.Type) *types.Struct {
	if _, isPtr := t.Underlying().(*types.Pointer); isPtr {
		return nil
	}
	if isTimeType(t) {
		return nil
	}
	s, _ := t.Underlying().(*types.Struct)
	return s
}

// arrays for every field of a struct-valued slice, produced by mk(fieldName, fieldSort)
func (e *Engine) structFields(st *types.Struct, mk func(name string, s Sort) *Term) map[string]*Term {
	m := map[string]*Term{}
	for i := 0; i < st.NumFields(); i++ {
		f := st.Field(i)
		fs := e.safeSort(f.Type())
		if fs == "?" {
			continue
		}
		if _, isSl := f.Type().Underlying().(*types.Slice); isSl {
			continue
		}
		m[f.Name()] = mk(f.Name(), fs)
	}
	return m
}

func (e *Engine) elemField(el VElem, field string) Value {
	st := structValueElem(el.Slice.Elem)
	arr, ok := el.Slice.Fields[field]
	if st == nil || !ok {
		unsup("field %s of a slice element is not modelled", field)
	}
	for i := 0; i < st.NumFields(); i++ {
		if st.Field(i).Name() == field {
			return e.wrap(mkSelect(arr, el.Idx), st.Field(i).Type())
		}
	}
	unsup("no field %s", field)
	return nil
}

// read element idx of a slice (struct-valued slices yield VElem)
func (e *Engine) sliceElem(sl VSlice, idx *Term) Value {
	if sl.Fields != nil {
		return VElem{Slice: sl, Idx: idx}
	}
	return e.wrap(mkSelect(sl.Arr, idx), sl.Elem)
}

// store v at idx (struct values are copied field by field)
func (e *Engine) sliceStore(sl VSlice, idx *Term, v Value, st *State) VSlice {
	if sl.Fields == nil {
		var et *Term
		if s, ok := v.(VStream); ok {
			et = s.ID
		} else {
			et = term(v)
		}
		return VSlice{Arr: mkStore(sl.Arr, idx, et), Len: sl.Len, Elem: sl.Elem}
	}
	n := VSlice{Len: sl.Len, Elem: sl.Elem, Fields: map[string]*Term{}}
	for f, arr := range sl.Fields {
		var fv Value
		switch x := v.(type) {
		case VElem:
			fv = e.elemField(x, f)
		case VTerm:
			fv = e.readField(st, VTerm{T: x.T, Typ: sl.Elem}, f)
		default:
			unsup("store of %T into a slice of structs", v)
		}
		n.Fields[f] = mkStoreK(arr, idx, term(fv))
	}
	return n
}

// Go map: domain array plus value arrays (slice-valued maps keep array and length per key)
type VMap struct {
	Has  *Term // (Array K Bool)
	Val  *Term // (Array K E)  for scalar values, or (Array K (Array Int E)) for slice values
	Len  *Term // (Array K Int) for slice values, nil otherwise
	Key  types.Type
	Elem types.Type // value type (possibly a slice type)
}

// address of a local variable (only passed to external functions that fill it in, e.g. Decode(&v), Scan(&x))
type VAddr struct {
	Obj types.Object
}

// address of a field of an object: &x.f (destination of an external call that fills it in, e.g. sql Rows.Scan)
type VFieldAddr struct {
	Base  VTerm
	Field string
	Typ   types.Type
}
type VClosure struct {
	Lit *ast.FuncLit
}
type VFunc struct { // opaque function value (parameter)
	ID  *Term
	Sig *types.Signature
}
type VNamedFunc struct { // reference to a declared function used as value
	Fn *types.Func
}
type VTuple []Value
type VNil struct{}

const SRef Sort = "Ref"
const SStr Sort = "Str"

type unsupported struct{ msg string }

func unsup(format string, a ...interface{}) { panic(unsupported{fmt.Sprintf(format, a...)}) }

// ---------------------------------------------------------------------------------------------
// state

type deferred struct {
	call  *ast.CallExpr
	bulk  *VSlice // deferred close of every element of a slice of channels
	where string
}

type famRead struct {
	arr, ln *Term
}

type State struct {
	vars    map[types.Object]Value
	mem     map[string]*Term // consumed:<id> sent:<id> closed:<id> ncalls:<fid> fld:<ref>.<name> ...
	memV    map[string]Value // non-scalar field overrides (slices)
	pc      []*Term
	defers  []deferred
	moved   map[string]bool   // stream ids whose read end has been handed over
	owned   map[string]string // stream ids whose read end this function holds -> description
	procs   []*ast.GoStmt     // spawned, not yet run
	readSet map[string]bool   // streams this function has received from (C04 horizon ghost)
	readFam []famRead
	dead    bool
}

func newState() *State {
	return &State{vars: map[types.Object]Value{}, mem: map[string]*Term{}, memV: map[string]Value{}, moved: map[string]bool{}, owned: map[string]string{}, readSet: map[string]bool{}}
}

func (s *State) clone() *State {
	n := &State{vars: make(map[types.Object]Value, len(s.vars)), mem: make(map[string]*Term, len(s.mem)), memV: make(map[string]Value, len(s.memV)),
		moved: make(map[string]bool, len(s.moved)), owned: make(map[string]string, len(s.owned))}
	for k, v := range s.vars {
		n.vars[k] = v
	}
	for k, v := range s.mem {
		n.mem[k] = v
	}
	for k, v := range s.memV {
		n.memV[k] = v
	}
	for k, v := range s.moved {
		n.moved[k] = v
	}
	for k, v := range s.owned {
		n.owned[k] = v
	}
	n.readSet = make(map[string]bool, len(s.readSet))
	for k, v := range s.readSet {
		n.readSet[k] = v
	}
	n.readFam = append([]famRead(nil), s.readFam...)
	n.pc = append([]*Term(nil), s.pc...)
	n.defers = append([]deferred(nil), s.defers...)
	n.procs = append([]*ast.GoStmt(nil), s.procs...)
	return n
}

func (s *State) assume(t *Term) {
	if isTrue(t) {
		return
	}
	if t.Op == "and" {
		for _, a := range t.Args {
			s.assume(a)
		}
		return
	}
	s.pc = append(s.pc, t)
}

// ---------------------------------------------------------------------------------------------
// sorts of Go types

func isNumberConstraint(tp *types.TypeParam) bool {
	iface, ok := tp.Constraint().Underlying().(*types.Interface)
	if !ok {
		return false
	}
	if iface.NumEmbeddeds() == 0 {
		return false
	}
	// any union containing numeric basic types
	s := tp.Constraint().String()
	return strings.Contains(s, "Number") || strings.Contains(s, "Integer") || strings.Contains(s, "Float") || strings.Contains(s, "float64") || strings.Contains(s, "int")
}

func isChan(t types.Type) bool {
	_, ok := t.Underlying().(*types.Chan)
	return ok
}

func isTimeType(t types.Type) bool {
	if n, ok := t.(*types.Named); ok {
		return n.Obj().Pkg() != nil && n.Obj().Pkg().Path() == "time" && (n.Obj().Name() == "Time" || n.Obj().Name() == "Duration")
	}
	return false
}

func (e *Engine) sortOf(t types.Type) Sort {
	if tp, ok := t.(*types.TypeParam); ok {
		if isNumberConstraint(tp) {
			return SReal
		}
		return Sort("U_" + tp.Obj().Name())
	}
	if a, ok := t.(*types.Alias); ok {
		return e.sortOf(types.Unalias(a))
	}
	if isTimeType(t) {
		return SInt
	}
	switch u := t.Underlying().(type) {
	case *types.Basic:
		switch {
		case u.Info()&types.IsInteger != 0:
			return SInt
		case u.Info()&types.IsFloat != 0:
			return SReal
		case u.Info()&types.IsBoolean != 0:
			return SBool
		case u.Info()&types.IsString != 0:
			return SStr
		case u.Kind() == types.UntypedNil:
			return SRef
		}
	case *types.Pointer, *types.Struct, *types.Interface, *types.Map:
		return SRef
	case *types.Chan, *types.Signature:
		return SInt
	}
	unsup("no sort for type %s", t)
	return ""
}

func sortTag(s Sort) string {
	r := strings.NewReplacer("(", "", ")", "", " ", "_")
	return r.Replace(string(s))
}

// ---------------------------------------------------------------------------------------------
// stream helpers

func (e *Engine) slen(id *Term) *Term { return mkApp("slen", SInt, id) }
func (e *Engine) sel(st VStream, k *Term) Value {
	return e.selAt(st.ID, st.Elem, k)
}
func (e *Engine) selAt(id *Term, elem types.Type, k *Term) Value {
	if isChan(elem) {
		unsup("stream of channels")
	}
	s := e.sortOf(elem)
	return e.wrap(mkApp("sel_"+sortTag(s), s, id, k), elem)
}

// wrap a term as a Value of Go type t
func (e *Engine) wrap(t *Term, typ types.Type) Value {
	if c, ok := typ.Underlying().(*types.Chan); ok {
		return VStream{ID: t, Elem: c.Elem()}
	}
	return VTerm{T: t, Typ: typ}
}

func (s *State) getMem(key string, def *Term) *Term {
	if t, ok := s.mem[key]; ok {
		return t
	}
	return def
}

var (
	sortIntArr  = arraySort(SInt, SInt)
	sortBoolArr = arraySort(SInt, SBool)
)

// In array mode (functions that handle a symbolic number of channels) the per-stream cursors live in three arrays
// indexed by stream id instead of one scalar per stream.
func (e *Engine) consumed(s *State, id *Term) *Term {
	if e.arrayMode {
		return mkSelect(s.mem["@consumed"], id)
	}
	return s.getMem("consumed:"+id.String(), mkInt(0))
}
func (e *Engine) sent(s *State, id *Term) *Term {
	if e.arrayMode {
		return mkSelect(s.mem["@sent"], id)
	}
	return s.getMem("sent:"+id.String(), mkInt(0))
}
func (e *Engine) setConsumed(s *State, id, v *Term) {
	e.idTerms[id.String()] = id
	if e.arrayMode {
		s.mem["@consumed"] = mkStore(s.mem["@consumed"], id, v)
		return
	}
	s.mem["consumed:"+id.String()] = v
}
func (e *Engine) setSent(s *State, id, v *Term) {
	e.idTerms[id.String()] = id
	if e.arrayMode {
		s.mem["@sent"] = mkStore(s.mem["@sent"], id, v)
		return
	}
	s.mem["sent:"+id.String()] = v
}
func (e *Engine) setClosed(s *State, id, v *Term) {
	if e.arrayMode {
		s.mem["@closed"] = mkStore(s.mem["@closed"], id, v)
		return
	}
	s.mem["closed:"+id.String()] = v
}

// fresh cursor arrays (array mode): used for havoc; every stream satisfies 0 <= consumed <= len, sent >= 0
func (e *Engine) freshCursorArray(s *State, key string) {
	switch key {
	case "@closed":
		s.mem[key] = e.fresh("closedA", sortBoolArr)
	case "@consumed":
		a := e.fresh("consumedA", sortIntArr)
		old := s.mem[key]
		s.mem[key] = a
		e.nfresh++
		b := mkVar(fmt.Sprintf("s$%d", e.nfresh), SInt)
		body := mkAnd(mkCmp("<=", mkInt(0), mkSelect(a, b)), mkCmp("<=", mkSelect(a, b), mkApp("slen", SInt, b)))
		if old != nil {
			body = mkAnd(body, mkCmp("<=", mkSelect(old, b), mkSelect(a, b)))
		}
		s.assume(mkForall([]*Term{b}, body, [][]*Term{{mkSelect(a, b)}}))
	case "@sent":
		a := e.fresh("sentA", sortIntArr)
		old := s.mem[key]
		s.mem[key] = a
		e.nfresh++
		b := mkVar(fmt.Sprintf("s$%d", e.nfresh), SInt)
		body := mkCmp("<=", mkInt(0), mkSelect(a, b))
		if old != nil {
			body = mkAnd(body, mkCmp("<=", mkSelect(old, b), mkSelect(a, b)))
		}
		s.assume(mkForall([]*Term{b}, body, [][]*Term{{mkSelect(a, b)}}))
	case "@nextid":
		old := s.mem[key]
		n := e.fresh("nextid", SInt)
		s.mem[key] = n
		if old != nil {
			s.assume(mkCmp("<=", old, n))
		}
	}
}
func (e *Engine) closed(s *State, id *Term) *Term {
	if e.arrayMode {
		return mkSelect(s.mem["@closed"], id)
	}
	// unknown unless set: streams made here are set to false at make, results of callees are constrained by their ensures
	return s.getMem("closed:"+id.String(), mkApp("closed0", SBool, id))
}
func (e *Engine) ncalls(s *State, fid *Term) *Term { return s.getMem("ncalls:"+fid.String(), mkInt(0)) }

func (e *Engine) fresh(base string, s Sort) *Term {
	e.nfresh++
	base = sanitize(base)
	return mkConst(fmt.Sprintf("%s!%d", base, e.nfresh), s)
}

func sanitize(s string) string {
	var sb strings.Builder
	for _, r := range s {
		if r == '_' || r == '.' || r >= '0' && r <= '9' || r >= 'a' && r <= 'z' || r >= 'A' && r <= 'Z' {
			sb.WriteRune(r)
		} else {
			sb.WriteRune('_')
		}
	}
	if sb.Len() == 0 {
		return "v"
	}
	return sb.String()
}

// fresh value of a Go type
func (e *Engine) freshValue(base string, t types.Type, st *State) Value {
	if a, ok := t.(*types.Alias); ok {
		t = types.Unalias(a)
	}
	switch u := t.Underlying().(type) {
	case *types.Chan:
		id := e.fresh(base, SInt)
		st.assume(mkCmp(">=", e.slen(id), mkInt(0)))
		return VStream{ID: id, Elem: u.Elem()}
	case *types.Slice:
		ln := e.fresh(base+".len", SInt)
		st.assume(mkCmp(">=", ln, mkInt(0)))
		if sv := structValueElem(u.Elem()); sv != nil {
			return VSlice{Len: ln, Elem: u.Elem(), Fields: e.structFields(sv, func(n string, fs Sort) *Term { return e.fresh(base+"."+n, arraySort(SInt, fs)) })}
		}
		es := e.elemSort(u.Elem())
		arr := e.fresh(base+".arr", arraySort(SInt, es))
		return VSlice{Arr: arr, Len: ln, Elem: u.Elem()}
	case *types.Map:
		return e.freshMap(base, u, st)
	case *types.Signature:
		return VFunc{ID: e.fresh(base, SInt), Sig: u}
	case *types.Tuple:
		var vs VTuple
		for i := 0; i < u.Len(); i++ {
			vs = append(vs, e.freshValue(fmt.Sprintf("%s%d", base, i), u.At(i).Type(), st))
		}
		return vs
	}
	return VTerm{T: e.fresh(base, e.sortOf(t)), Typ: t}
}

func (e *Engine) mapSorts(u *types.Map) (ks Sort, vs Sort, isSlice bool, es Sort) {
	ks = e.sortOf(u.Key())
	if sl, ok := u.Elem().Underlying().(*types.Slice); ok {
		es = e.elemSort(sl.Elem())
		return ks, arraySort(SInt, es), true, es
	}
	return ks, e.sortOf(u.Elem()), false, ""
}

func arraySortK(k, v Sort) Sort { return Sort("(Array " + string(k) + " " + string(v) + ")") }

func (e *Engine) freshMap(base string, u *types.Map, st *State) VMap {
	ks, vs, isSl, _ := e.mapSorts(u)
	m := VMap{Has: e.fresh(base+".has", arraySortK(ks, SBool)), Val: e.fresh(base+".val", arraySortK(ks, vs)), Key: u.Key(), Elem: u.Elem()}
	if isSl {
		m.Len = e.fresh(base+".len", arraySortK(ks, SInt))
		e.nfresh++
		b := mkVar(fmt.Sprintf("k$%d", e.nfresh), ks)
		st.assume(mkForall([]*Term{b}, mkCmp(">=", mkSelect(m.Len, b), mkInt(0)), [][]*Term{{mkSelect(m.Len, b)}}))
	}
	return m
}

func (e *Engine) mapGet(m VMap, k *Term) (Value, *Term) {
	ok := mkSelect(m.Has, k)
	if m.Len != nil {
		sl := m.Elem.Underlying().(*types.Slice)
		return VSlice{Arr: mkSelect(m.Val, k), Len: mkIte(ok, mkSelect(m.Len, k), mkInt(0)), Elem: sl.Elem()}, ok
	}
	zero := term(e.zeroValue(m.Elem))
	return e.wrap(mkIte(ok, mkSelect(m.Val, k), zero), m.Elem), ok
}

func (e *Engine) mapSet(m VMap, k *Term, v Value) VMap {
	n := m
	n.Has = mkStoreK(m.Has, k, tTrue)
	if m.Len != nil {
		sl, ok := v.(VSlice)
		if !ok {
			unsup("map store of %T", v)
		}
		n.Val = mkStoreK(m.Val, k, sl.Arr)
		n.Len = mkStoreK(m.Len, k, sl.Len)
		return n
	}
	n.Val = mkStoreK(m.Val, k, term(v))
	return n
}

func mkStoreK(arr, idx, v *Term) *Term {
	return &Term{Op: "store", Args: []*Term{arr, idx, v}, Sort: arr.Sort}
}

func (e *Engine) elemSort(t types.Type) Sort {
	if isChan(t) {
		return SInt
	}
	if _, ok := t.Underlying().(*types.Slice); ok {
		unsup("slice of slices")
	}
	return e.sortOf(t)
}

func (e *Engine) zeroValue(t types.Type) Value {
	if a, ok := t.(*types.Alias); ok {
		t = types.Unalias(a)
	}
	switch u := t.Underlying().(type) {
	case *types.Slice:
		if sv := structValueElem(u.Elem()); sv != nil {
			return VSlice{Len: mkInt(0), Elem: u.Elem(), Fields: e.structFields(sv, func(n string, fs Sort) *Term { return mkConst("emptyarr_"+sortTag(fs), arraySort(SInt, fs)) })}
		}
		es := e.elemSort(u.Elem())
		return VSlice{Arr: mkConst("emptyarr_"+sortTag(es), arraySort(SInt, es)), Len: mkInt(0), Elem: u.Elem()}
	case *types.Chan:
		return VStream{ID: mkConst("nilchan", SInt), Elem: u.Elem()}
	}
	s := e.sortOf(t)
	switch s {
	case SInt:
		return VTerm{T: mkInt(0), Typ: t}
	case SReal:
		return VTerm{T: toReal(mkInt(0)), Typ: t}
	case SBool:
		return VTerm{T: tFalse, Typ: t}
	case SRef:
		if _, ok := t.Underlying().(*types.Struct); ok {
			return VTerm{T: mkConst("zero_"+sanitize(t.String()), SRef), Typ: t}
		}
		return VTerm{T: mkConst("nil", SRef), Typ: t}
	}
	return VTerm{T: mkConst("zero_"+sortTag(s), s), Typ: t}
}

func term(v Value) *Term {
	switch x := v.(type) {
	case VTerm:
		return x.T
	case VStream:
		return x.ID
	case VFunc:
		return x.ID
	}
	unsup("value %T is not a scalar", v)
	return nil
}
