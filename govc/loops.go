package main

import (
	"fmt"
	"go/ast"
	"go/token"
	"go/types"
	"strings"
)

func (e *Engine) loopOrdinal(s ast.Stmt) int {
	fi := e.frames[len(e.frames)-1].fi
	if fi == nil {
		return -1
	}
	for i, l := range fi.Loops {
		if l == s {
			return i
		}
	}
	return -1
}

func (e *Engine) loopClauses(s ast.Stmt, kind string) []*Clause {
	fi := e.frames[len(e.frames)-1].fi
	if fi == nil || fi.Contract == nil {
		return nil
	}
	i := e.loopOrdinal(s)
	if i < 0 {
		return nil
	}
	cls := fi.Contract.byKind(kind, fmt.Sprintf("loop#%d", i))
	if kind != "invariant" || currentProp == "" {
		return cls
	}
	// an invariant tagged with property ids carries those properties only: a run for another property neither assumes
	// nor checks it (so that a change breaking it is reported under the property it belongs to and nowhere else)
	var out []*Clause
	for _, cl := range cls {
		if propTagged(cl.Tags) && !hasTag(cl.Tags, currentProp) {
			continue
		}
		out = append(out, cl)
	}
	return out
}

// property of the current run ("" = all)
var currentProp string

func propTagged(tags []string) bool {
	for _, t := range tags {
		if len(t) == 3 && t[0] == 'C' && t[1] >= '0' && t[1] <= '9' && t[2] >= '0' && t[2] <= '9' {
			return true
		}
	}
	return false
}

// havoc set of a loop body
type havocSet struct {
	ghosts map[string]*Term // refs whose ghost abstract state (view) is havoced
	arr    map[string]bool  // array mode: "@consumed", "@sent", "@closed", "@nextid"
	vars   map[types.Object]bool
	mem    map[string]bool  // scalar mem keys
	fields map[string]VTerm // refs whose fields are all havoced
}

func (e *Engine) collectHavoc(nodes []ast.Node, st *State) *havocSet {
	h := &havocSet{vars: map[types.Object]bool{}, mem: map[string]bool{}, fields: map[string]VTerm{}, arr: map[string]bool{}, ghosts: map[string]*Term{}}
	var streamOf func(x ast.Expr) (VStream, bool)
	streamOf = func(x ast.Expr) (vs VStream, ok bool) {
		defer func() {
			if r := recover(); r != nil {
				if _, isU := r.(unsupported); isU {
					ok = false
					return
				}
				panic(r)
			}
		}()
		tmp := st.clone()
		nob := len(e.obls)
		v := e.eval(x, tmp)
		e.obls = e.obls[:nob]
		vs, ok = v.(VStream)
		return
	}
	declaredInside := func(x ast.Expr) bool {
		for {
			switch y := ast.Unparen(x).(type) {
			case *ast.CallExpr:
				return true // a stream produced by a call inside the loop is fresh in every iteration
			case *ast.IndexExpr:
				x = y.X
				continue
			case *ast.SelectorExpr:
				x = y.X
				continue
			case *ast.Ident:
				o := e.info().ObjectOf(y)
				if o == nil {
					return false
				}
				for _, n := range nodes {
					if n != nil && !isNilNode(n) && o.Pos() >= n.Pos() && o.Pos() <= n.End() {
						return true
					}
				}
				return false
			}
			return false
		}
	}
	markRecv := func(x ast.Expr) {
		if e.arrayMode {
			h.arr["@consumed"] = true
			return
		}
		if s, ok := streamOf(x); ok {
			h.mem["consumed:"+s.ID.String()] = true
		} else if !declaredInside(x) {
			unsup("cannot resolve channel expression %s in loop body", e.src(x))
		}
	}
	markSend := func(x ast.Expr) {
		if e.arrayMode {
			h.arr["@sent"] = true
			h.arr["@closed"] = true
			return
		}
		if s, ok := streamOf(x); ok {
			h.mem["sent:"+s.ID.String()] = true
			h.mem["closed:"+s.ID.String()] = true
		} else if !declaredInside(x) {
			unsup("cannot resolve channel expression %s in loop body", e.src(x))
		}
	}
	var markLHS func(l ast.Expr)
	markLHS = func(l ast.Expr) {
		switch lx := ast.Unparen(l).(type) {
		case *ast.Ident:
			if o := e.info().ObjectOf(lx); o != nil {
				h.vars[o] = true
			}
		case *ast.IndexExpr:
			markLHS(lx.X)
		case *ast.SelectorExpr:
			if ix, ok := ast.Unparen(lx.X).(*ast.IndexExpr); ok {
				// s[i].f = v: the slice (wherever it lives) changes
				markLHS(ix.X)
				if _, isSel := ast.Unparen(ix.X).(*ast.SelectorExpr); isSel {
					return
				}
			}
			if id, ok := ast.Unparen(lx.X).(*ast.Ident); ok {
				// a variable declared inside the loop body names a different object in every iteration: nothing that
				// exists at the loop head changes through it (its object is created in the body)
				if o := e.info().ObjectOf(id); o != nil {
					if _, bound := st.vars[o]; !bound {
						for _, n := range nodes {
							if n != nil && n.Pos() <= o.Pos() && o.Pos() < n.End() {
								return
							}
						}
					}
				}
			}
			tmp := st.clone()
			nob := len(e.obls)
			func() {
				defer func() {
					if r := recover(); r != nil {
						if _, isU := r.(unsupported); !isU {
							panic(r)
						}
						unsup("cannot resolve field target %s in loop body", e.src(l))
					}
				}()
				if b, ok := e.eval(lx.X, tmp).(VTerm); ok {
					h.fields[b.T.String()] = b
				}
			}()
			e.obls = e.obls[:nob]
		}
	}
	var visit func(n ast.Node) bool
	visit = func(n ast.Node) bool {
		switch x := n.(type) {
		case *ast.AssignStmt:
			for _, l := range x.Lhs {
				markLHS(l)
			}
		case *ast.IncDecStmt:
			markLHS(x.X)
		case *ast.RangeStmt:
			if x.Key != nil {
				markLHS(x.Key)
			}
			if x.Value != nil {
				markLHS(x.Value)
			}
			if isChan(e.typeOf(x.X)) {
				markRecv(x.X)
			}
			if v, ok := e.loopIdx[x]; ok {
				h.vars[v] = true
			}
		case *ast.UnaryExpr:
			if x.Op == token.ARROW {
				markRecv(x.X)
			}
		case *ast.SendStmt:
			markSend(x.Chan)
		case *ast.GoStmt:
			if _, isLit := ast.Unparen(x.Call.Fun).(*ast.FuncLit); isLit {
				unsup("go func literal inside a loop at %s", e.src(x))
			}
		case *ast.CallExpr:
			// builtin close
			if id, ok := x.Fun.(*ast.Ident); ok && id.Name == "close" && len(x.Args) == 1 {
				markSend(x.Args[0])
				return true
			}
			if id, ok := x.Fun.(*ast.Ident); ok && id.Name == "make" && e.arrayMode && len(x.Args) > 0 {
				if t := e.info().Types[x.Args[0]].Type; t != nil && isChan(t) {
					for _, k := range []string{"@consumed", "@sent", "@closed", "@nextid"} {
						h.arr[k] = true
					}
				}
			}
			if e.arrayMode {
				if tv, ok := e.info().Types[x]; ok && tv.Type != nil && typeHasChan(tv.Type) {
					h.arr["@nextid"] = true
					h.arr["@consumed"] = true
				}
			}
			// stream-typed and ref-typed arguments
			for _, a := range x.Args {
				t := e.info().Types[a].Type
				if t == nil {
					continue
				}
				if sl, ok := t.Underlying().(*types.Slice); ok && isChan(sl.Elem()) && e.arrayMode {
					h.arr["@consumed"] = true
				}
				if c, ok := t.Underlying().(*types.Chan); ok {
					if c.Dir() != types.SendOnly {
						markRecv(a)
					}
					if c.Dir() != types.RecvOnly {
						markSend(a)
					}
				}
			}
			// method call on a ref receiver: havoc its fields (callee may modify)
			if se, ok := x.Fun.(*ast.SelectorExpr); ok {
				if sel := e.info().Selections[se]; sel != nil && sel.Kind() == types.MethodVal {
					fn := sel.Obj().(*types.Func)
					c := e.w.Contracts[e.w.keyOf(fn)]
					if c != nil && len(c.byKind("modifies", "")) > 0 {
						markLHS(&ast.SelectorExpr{X: se.X, Sel: ast.NewIdent("_all")})
					}
					// interface method with an interface-level contract that modifies the object's ghost state
					if msig := fn.Type().(*types.Signature); msig.Recv() != nil {
						if nn, ok := msig.Recv().Type().(*types.Named); ok {
							if _, isIface := nn.Underlying().(*types.Interface); isIface {
								ic := e.w.IfaceContracts[shortPkg(fn.Pkg().Path())+"."+nn.Obj().Name()+"."+fn.Name()]
								if ic != nil && ic.Attrs["counts"] != "" {
									// the method advances ghost call counters of its receiver (attr counts = name, ...)
									tmp := st.clone()
									nob := len(e.obls)
									func() {
										defer func() { recover() }()
										if b, ok := e.eval(se.X, tmp).(VTerm); ok {
											for _, cn := range strings.Split(ic.Attrs["counts"], ",") {
												h.mem["gcnt:"+strings.TrimSpace(cn)+":"+b.T.String()] = true
											}
										}
									}()
									e.obls = e.obls[:nob]
								}
								if ic != nil && len(ic.byKind("modifies", "")) > 0 {
									tmp := st.clone()
									nob := len(e.obls)
									func() {
										defer func() {
											if r := recover(); r != nil {
												if _, isU := r.(unsupported); !isU {
													panic(r)
												}
											}
										}()
										if b, ok := e.eval(se.X, tmp).(VTerm); ok {
											h.ghosts[b.T.String()] = b.T
										}
									}()
									e.obls = e.obls[:nob]
								}
							}
						}
					}
				}
			}
			// &x passed to a call: the callee may fill x in
			for _, a := range x.Args {
				if u, ok := ast.Unparen(a).(*ast.UnaryExpr); ok && u.Op == token.AND {
					markLHS(u.X)
				}
			}
			// methods of standard-library readers / decoders: their ghost progress counters change
			if se, ok := x.Fun.(*ast.SelectorExpr); ok {
				if sel := e.info().Selections[se]; sel != nil && sel.Kind() == types.MethodVal {
					if fn, ok := sel.Obj().(*types.Func); ok && fn.Pkg() != nil && (fn.Pkg().Path() == "encoding/json" || fn.Pkg().Path() == "encoding/csv" || fn.Pkg().Path() == "database/sql" || fn.Pkg().Path() == "io") {
						tmp := st.clone()
						nob := len(e.obls)
						func() {
							defer func() { recover() }()
							if b, ok := e.eval(se.X, tmp).(VTerm); ok {
								h.mem["extrem:"+b.T.String()] = true
								h.mem["csvfpr:"+b.T.String()] = true
								h.mem["jsoncnt:"+b.T.String()] = true
								h.mem["sqlcur:"+b.T.String()] = true
								if fn.Pkg().Path() == "encoding/csv" {
									h.mem["csvpending:"+b.T.String()] = true
								}
								if fn.Pkg().Path() == "io" {
									h.mem["nwr:"+b.T.String()] = true
								}
							}
						}()
						e.obls = e.obls[:nob]
					}
				}
			}
			// external effect log: (*sql.Stmt).Exec
			if se, ok := x.Fun.(*ast.SelectorExpr); ok && se.Sel.Name == "Exec" {
				if sel := e.info().Selections[se]; sel != nil {
					if fn, ok := sel.Obj().(*types.Func); ok && fn.Pkg() != nil && fn.Pkg().Path() == "database/sql" {
						tmp := st.clone()
						nob := len(e.obls)
						func() {
							defer func() { recover() }()
							if b, ok := e.eval(se.X, tmp).(VTerm); ok {
								h.mem["nexec:"+b.T.String()] = true
							}
						}()
						e.obls = e.obls[:nob]
					}
				}
			}
			// call of a function-typed variable
			if id, ok := ast.Unparen(x.Fun).(*ast.Ident); ok {
				if o, ok := e.info().ObjectOf(id).(*types.Var); ok {
					if v, ok := st.vars[o]; ok {
						if fv, ok := v.(VFunc); ok {
							h.mem["ncalls:"+fv.ID.String()] = true
						}
					}
				}
			}
		}
		return true
	}
	for _, n := range nodes {
		if n != nil {
			ast.Inspect(n, visit)
		}
	}
	return h
}

func isNilNode(n ast.Node) bool {
	switch x := n.(type) {
	case ast.Expr:
		return x == nil
	case ast.Stmt:
		return x == nil
	}
	return n == nil
}

func typeHasChan(t types.Type) bool {
	switch u := t.Underlying().(type) {
	case *types.Chan:
		return true
	case *types.Slice:
		return typeHasChan(u.Elem())
	case *types.Tuple:
		for i := 0; i < u.Len(); i++ {
			if typeHasChan(u.At(i).Type()) {
				return true
			}
		}
	}
	return false
}

// safety net: everything the executed loop body changed must have been havoced at the loop head
func (e *Engine) checkHavocComplete(head, out *State, h *havocSet, where string) {
	for k, v := range out.mem {
		hv, ok := head.mem[k]
		if ok && hv.String() == v.String() {
			continue
		}
		if h.mem[k] || h.arr[k] {
			continue
		}
		if strings.HasPrefix(k, "nev:") {
			if _, ok := h.ghosts[k[4:]]; ok {
				continue
			}
		}
		if strings.HasPrefix(k, "fld:") {
			covered := false
			for r := range h.fields {
				if strings.HasPrefix(k, "fld:"+r+".") {
					covered = true
				}
			}
			if covered {
				continue
			}
			if !ok {
				continue // object created inside the body
			}
		}
		if !ok && (strings.HasPrefix(k, "consumed:") || strings.HasPrefix(k, "sent:") || strings.HasPrefix(k, "closed:") || strings.HasPrefix(k, "ncalls:")) {
			continue // stream / function value created inside the body
		}
		if strings.HasPrefix(k, "ncalled:") {
			// call counters are only tracked on loop-free paths: after a loop that calls the callee the count is unknown
			if e.ncalledDirty == nil {
				e.ncalledDirty = map[string]bool{}
			}
			e.ncalledDirty[k] = true
			continue
		}
		unsup("loop at %s changes %s, which the havoc analysis did not anticipate", where, k)
	}
	for k, v := range out.memV {
		hv, ok := head.memV[k]
		if ok && sameValueDeep(hv, v) {
			continue
		}
		covered := false
		for r := range h.fields {
			if strings.HasPrefix(k, "fld:"+r+".") {
				covered = true
			}
		}
		for r := range h.ghosts {
			if k == "ghost:view:"+r {
				covered = true
			}
		}
		if covered || !ok {
			continue
		}
		unsup("loop at %s changes %s, which the havoc analysis did not anticipate", where, k)
	}
	for o, v := range out.vars {
		hv, ok := head.vars[o]
		if !ok || h.vars[o] {
			continue
		}
		if !sameValueDeep(hv, v) {
			unsup("loop at %s changes variable %s, which the havoc analysis did not anticipate", where, o.Name())
		}
	}
}

func sameValueDeep(a, b Value) bool {
	if am, ok := a.(VMap); ok {
		bm, ok2 := b.(VMap)
		return ok2 && am.Has.String() == bm.Has.String() && am.Val.String() == bm.Val.String() && (am.Len == nil || am.Len.String() == bm.Len.String())
	}
	return sameValue(a, b)
}

func (e *Engine) applyHavoc(h *havocSet, st *State) {
	if e.trackAlloc {
		// a loop body may allocate: the counter only grows
		h.mem["@alloc"] = true
		defer func(old *Term) { st.assume(mkCmp("<=", old, st.mem["@alloc"])) }(e.allocCounter(st))
	}
	for _, k := range []string{"@nextid", "@consumed", "@sent", "@closed"} {
		if h.arr[k] {
			e.freshCursorArray(st, k)
		}
	}
	for o := range h.vars {
		old, ok := st.vars[o]
		if !ok {
			continue // declared inside the loop
		}
		switch ov := old.(type) {
		case VStream:
			st.vars[o] = e.freshValue(o.Name(), o.Type(), st)
			_ = ov
		default:
			st.vars[o] = e.freshValue(o.Name(), o.Type(), st)
		}
	}
	for k := range h.mem {
		if len(k) > 9 && k[:9] == "consumed:" {
			st.readSet[k[9:]] = true
		}
		switch {
		case len(k) > 7 && k[:7] == "closed:":
			st.mem[k] = e.fresh("closed", SBool)
		case strings.HasPrefix(k, "csvpending:"):
			st.mem[k] = e.fresh("csvpending", SBool)
		default:
			t := e.fresh(sanitize(k), SInt)
			st.mem[k] = t
			if len(k) > 9 && k[:9] == "consumed:" {
				// 0 <= consumed <= slen always
				idStr := k[9:]
				_ = idStr
			}
			st.assume(mkCmp(">=", t, mkInt(0)))
		}
	}
	for _, b := range h.fields {
		e.havocFields(st, b)
	}
	for _, k := range sortedKeys(h.ghosts) {
		e.havocGhostView(st, h.ghosts[k])
	}
}

// havocField: one field of an object gets an arbitrary value
func (e *Engine) havocField(st *State, b VTerm, field string) {
	s, _ := structOf(b.Typ)
	if s == nil {
		return
	}
	for i := 0; i < s.NumFields(); i++ {
		f := s.Field(i)
		if f.Name() != field || !e.typeModelled(f.Type()) {
			continue
		}
		key := "fld:" + b.T.String() + "." + f.Name()
		switch vv := e.freshValue(f.Name(), f.Type(), st).(type) {
		case VSlice:
			st.memV[key] = vv
		case VMap:
			st.memV[key] = vv
		case VStream:
			st.mem[key] = vv.ID
		case VTerm:
			st.mem[key] = vv.T
		}
	}
}

func (e *Engine) havocFields(st *State, b VTerm) {
	s, sname := structOf(b.Typ)
	if s == nil {
		return
	}
	if sname == "Bst" {
		// ghost abstract state of the search tree: multiset of its values (value -> multiplicity)
		st.mem["bst:"+b.T.String()] = e.fresh("bcount", arraySortK(SReal, SInt))
	}
	for i := 0; i < s.NumFields(); i++ {
		f := s.Field(i)
		if _, isSig := f.Type().Underlying().(*types.Signature); isSig {
			continue
		}
		if !e.typeModelled(f.Type()) {
			continue
		}
		key := "fld:" + b.T.String() + "." + f.Name()
		v := e.freshValue(f.Name(), f.Type(), st)
		switch vv := v.(type) {
		case VSlice:
			st.memV[key] = vv
		case VMap:
			st.memV[key] = vv
		case VStream:
			st.mem[key] = vv.ID
		case VTerm:
			st.mem[key] = vv.T
		}
	}
}

// consumed bound facts: 0 <= consumed(c) <= slen(c) for every consumed key in mem
func (e *Engine) assumeStreamBounds(st *State, h *havocSet, streams map[string]*Term) {
	for k := range h.mem {
		if len(k) > 9 && k[:9] == "consumed:" {
			if id, ok := streams[k[9:]]; ok {
				st.assume(mkCmp("<=", st.mem[k], e.slen(id)))
			}
		}
		if len(k) > 5 && k[:5] == "sent:" {
			if id, ok := streams[k[5:]]; ok {
				_ = id
			}
		}
	}
}

func (e *Engine) evalInvariants(s ast.Stmt, st *State, pos token.Pos) []*Term {
	var out []*Term
	for _, cl := range e.loopClauses(s, "invariant") {
		env := e.specEnvAt(st, pos)
		out = append(out, term(e.evalSpec(cl.Expr, env)))
	}
	return out
}

func (e *Engine) assertInvariants(s ast.Stmt, st *State, pos token.Pos, phase string) {
	ord := e.loopOrdinal(s)
	if phase == "preserve" {
		for _, cl := range e.loopClauses(s, "use") {
			var end token.Pos
			switch l := s.(type) {
			case *ast.ForStmt:
				end = l.Body.Rbrace
			case *ast.RangeStmt:
				end = l.Body.Rbrace
			}
			e.useLemma(cl.Expr, e.specEnvAt(st, end), st, cl.Where, hasTag(cl.Tags, "cond"))
		}
	}
	for j, cl := range e.loopClauses(s, "invariant") {
		env := e.specEnvAt(st, pos)
		t := term(e.evalSpec(cl.Expr, env))
		e.assert(st, t, fmt.Sprintf("loop#%d/%s#%d", ord, phase, j), cl.Where, cl.Tags)
	}
}

func (e *Engine) decreasesTerm(s ast.Stmt, st *State, pos token.Pos) *Term {
	cls := e.loopClauses(s, "decreases")
	if len(cls) == 0 {
		return nil
	}
	return term(e.evalSpec(cls[0].Expr, e.specEnvAt(st, pos)))
}

// knownStreams maps id string -> id term for streams whose keys may be havoced (for bound facts)
func (e *Engine) knownStreams(st *State) map[string]*Term {
	m := map[string]*Term{}
	for _, v := range st.vars {
		switch x := v.(type) {
		case VStream:
			m[x.ID.String()] = x.ID
		}
	}
	for _, t := range e.extraStreams {
		m[t.String()] = t
	}
	return m
}

// `for i := 0; i < workers; i++ { wg.Add(1); go func() { ... }() }`: worker pool over a shared job channel.
// The workers are sequentialised: one process runs the worker body (all jobs); interleavings are not modelled.
func (e *Engine) spawnLoop(x *ast.ForStmt) *ast.GoStmt {
	var g *ast.GoStmt
	for _, s := range x.Body.List {
		switch y := s.(type) {
		case *ast.GoStmt:
			if g != nil {
				return nil
			}
			g = y
		case *ast.ExprStmt:
			c, ok := y.X.(*ast.CallExpr)
			if !ok {
				return nil
			}
			se, ok := c.Fun.(*ast.SelectorExpr)
			if !ok || se.Sel.Name != "Add" {
				return nil
			}
		default:
			return nil
		}
	}
	return g
}

func (e *Engine) execFor(x *ast.ForStmt, st *State) []Out {
	e.loopDepth++
	defer func() { e.loopDepth-- }()
	if g := e.spawnLoop(x); g != nil {
		e.notes["worker pool sequentialised: the "+e.src(x)+" loop spawns workers over a shared job channel; one worker process is verified, interleavings of several workers are not modelled"] = true
		st.procs = append(st.procs, g)
		return []Out{{st: st}}
	}
	if x.Init != nil {
		st = e.execStmt(x.Init, st)[0].st
	}
	invs := e.loopClauses(x, "invariant")
	if len(invs) == 0 {
		unsup("loop without invariant at %s (loop#%d)", e.src(x), e.loopOrdinal(x))
	}
	pos := x.Body.Lbrace + 1
	e.assertInvariants(x, st, pos, "establish")
	h := e.collectHavoc([]ast.Node{x.Cond, x.Post, x.Body}, st)
	head := st.clone()
	e.applyHavoc(h, head)
	e.assumeStreamBounds(head, h, e.knownStreams(head))
	for _, t := range e.evalInvariants(x, head, pos) {
		head.assume(t)
	}
	var results []Out
	// exit by condition
	var cond *Term
	bodySt := head.clone()
	if x.Cond != nil {
		cond = term(e.eval(x.Cond, bodySt))
		exit := head.clone()
		ec := term(e.eval(x.Cond, exit))
		exit.assume(mkNot(ec))
		if !isTrue(ec) {
			results = append(results, Out{st: exit})
		}
		bodySt.assume(cond)
	}
	var dec0 *Term
	// the measure is taken at the loop head, before the condition is evaluated (a condition such as rows.Next() advances
	// a cursor: measured after it, an iteration would be compared with itself)
	if d := e.decreasesTerm(x, head, pos); d != nil {
		dec0 = d
	}
	if cond == nil || !isFalse(cond) {
		for _, o := range e.execBlock(x.Body.List, bodySt) {
			switch o.kind {
			case fBreak:
				o.kind = fNormal
				results = append(results, o)
			case fReturn:
				results = append(results, o)
			case fNormal, fContinue:
				s2 := o.st
				if x.Post != nil {
					s2 = e.execStmt(x.Post, s2)[0].st
				}
				e.checkHavocComplete(head, s2, h, e.src(x))
				e.assertInvariants(x, s2, pos, "preserve")
				if dec0 != nil {
					d1 := e.decreasesTerm(x, s2, pos)
					ord := e.loopOrdinal(x)
					e.assert(s2, mkAnd(mkCmp(">=", dec0, mkInt(0)), mkCmp("<", d1, dec0)), fmt.Sprintf("loop#%d/decreases", ord), e.src(x), nil)
				}
			}
		}
	}
	return results
}

func (e *Engine) execRange(x *ast.RangeStmt, st *State) []Out {
	e.loopDepth++
	defer func() { e.loopDepth-- }()
	t := e.typeOf(x.X)
	switch u := t.Underlying().(type) {
	case *types.Chan:
		return e.execRangeChan(x, st)
	case *types.Slice:
		return e.execRangeSlice(x, st, u)
	case *types.Map:
		return e.execRangeMap(x, st)
	}
	unsup("range over %s at %s", t, e.src(x))
	return nil
}

func (e *Engine) execRangeChan(x *ast.RangeStmt, st *State) []Out {
	ch, ok := e.eval(x.X, st).(VStream)
	if !ok {
		unsup("range over non-stream")
	}
	e.checkNotMoved(st, ch, e.src(x))
	st.readSet[ch.ID.String()] = true
	e.idTerms[ch.ID.String()] = ch.ID
	pos := x.Body.Lbrace + 1
	invs := e.loopClauses(x, "invariant")
	if len(invs) == 0 {
		unsup("loop without invariant at %s (loop#%d)", e.src(x), e.loopOrdinal(x))
	}
	e.assertInvariants(x, st, pos, "establish")
	h := e.collectHavoc([]ast.Node{x.Body}, st)
	if e.arrayMode {
		h.arr["@consumed"] = true
	} else {
		h.mem["consumed:"+ch.ID.String()] = true
	}
	if x.Key != nil {
		if id, ok := x.Key.(*ast.Ident); ok && id.Name != "_" {
			if o := e.info().ObjectOf(id); o != nil {
				h.vars[o] = true
			}
		}
	}
	head := st.clone()
	e.applyHavoc(h, head)
	ks := e.knownStreams(head)
	ks[ch.ID.String()] = ch.ID
	e.assumeStreamBounds(head, h, ks)
	for _, t := range e.evalInvariants(x, head, pos) {
		head.assume(t)
	}
	var results []Out
	c := e.consumed(head, ch.ID)
	okT := mkCmp("<", c, e.slen(ch.ID))
	exit := head.clone()
	exit.assume(mkNot(okT))
	results = append(results, Out{st: exit})
	body := head.clone()
	body.assume(okT)
	v := e.sel(ch, c)
	e.setConsumed(body, ch.ID, mkArith("+", c, mkInt(1)))
	if x.Key != nil {
		if x.Tok == token.DEFINE {
			if id, ok := x.Key.(*ast.Ident); ok && id.Name != "_" {
				body.vars[e.info().Defs[id]] = v
			}
		} else {
			e.assignTo(x.Key, v, body)
		}
	}
	for _, o := range e.execBlock(x.Body.List, body) {
		switch o.kind {
		case fBreak:
			o.kind = fNormal
			results = append(results, o)
		case fReturn:
			results = append(results, o)
		default:
			e.checkHavocComplete(head, o.st, h, e.src(x))
			e.assertInvariants(x, o.st, pos, "preserve")
		}
	}
	return results
}

func (e *Engine) execRangeSlice(x *ast.RangeStmt, st *State, u *types.Slice) []Out {
	sl, ok := e.eval(x.X, st).(VSlice)
	if !ok {
		unsup("range over non-slice value")
	}
	bind := func(s *State, idx *Term) {
		if x.Key != nil {
			if id, ok := x.Key.(*ast.Ident); ok && id.Name != "_" {
				if x.Tok == token.DEFINE {
					s.vars[e.info().Defs[id]] = VTerm{T: idx, Typ: types.Typ[types.Int]}
				} else {
					e.assignTo(x.Key, VTerm{T: idx, Typ: types.Typ[types.Int]}, s)
				}
			}
		}
		if x.Value != nil {
			if id, ok := x.Value.(*ast.Ident); ok && id.Name != "_" {
				v := e.sliceElem(sl, idx)
				if x.Tok == token.DEFINE {
					s.vars[e.info().Defs[id]] = v
				} else {
					e.assignTo(x.Value, v, s)
				}
			}
		}
	}
	// `for _, c := range cs { defer close(c) }`: one deferred bulk close of every element
	if len(x.Body.List) == 1 {
		if ds, ok := x.Body.List[0].(*ast.DeferStmt); ok {
			if id, ok := ds.Call.Fun.(*ast.Ident); ok && id.Name == "close" && len(ds.Call.Args) == 1 {
				if av, ok := ds.Call.Args[0].(*ast.Ident); ok && x.Value != nil {
					if vv, ok := x.Value.(*ast.Ident); ok && vv.Name == av.Name && isChan(sl.Elem) {
						cp := sl
						st.defers = append(st.defers, deferred{bulk: &cp, where: e.src(ds)})
						return []Out{{st: st}}
					}
				}
			}
		}
	}
	invs := e.loopClauses(x, "invariant")
	// concrete small length and no invariant: unroll
	if len(invs) == 0 {
		if sl.Len.Op == "int" && sl.Len.Int.IsInt64() && sl.Len.Int.Int64() <= 8 {
			outs := []Out{{st: st}}
			var results []Out
			for i := int64(0); i < sl.Len.Int.Int64(); i++ {
				var next []Out
				for _, o := range outs {
					bind(o.st, mkInt(i))
					for _, bo := range e.execBlock(x.Body.List, o.st) {
						switch bo.kind {
						case fBreak:
							bo.kind = fNormal
							results = append(results, bo)
						case fReturn:
							results = append(results, bo)
						default:
							bo.kind = fNormal
							next = append(next, bo)
						}
					}
				}
				outs = next
			}
			return append(results, outs...)
		}
		unsup("loop without invariant at %s (loop#%d)", e.src(x), e.loopOrdinal(x))
	}
	// general case: hidden index variable idx<N>
	ord := e.loopOrdinal(x)
	iv, ok := e.loopIdx[x]
	if !ok {
		iv = types.NewVar(x.Pos(), e.pkg().Types, fmt.Sprintf("idx%d", ord), types.Typ[types.Int])
		e.loopIdx[x] = iv
	}
	pos := x.Body.Lbrace + 1
	st.vars[iv] = VTerm{T: mkInt(0), Typ: types.Typ[types.Int]}
	e.assertInvariants(x, st, pos, "establish")
	h := e.collectHavoc([]ast.Node{x.Body}, st)
	h.vars[iv] = true
	head := st.clone()
	e.applyHavoc(h, head)
	e.assumeStreamBounds(head, h, e.knownStreams(head))
	idx := term(head.vars[iv])
	head.assume(mkAnd(mkCmp("<=", mkInt(0), idx), mkCmp("<=", idx, sl.Len)))
	for _, t := range e.evalInvariants(x, head, pos) {
		head.assume(t)
	}
	var results []Out
	exit := head.clone()
	exit.assume(mkCmp(">=", idx, sl.Len))
	results = append(results, Out{st: exit})
	body := head.clone()
	body.assume(mkCmp("<", idx, sl.Len))
	bind(body, idx)
	for _, o := range e.execBlock(x.Body.List, body) {
		switch o.kind {
		case fBreak:
			o.kind = fNormal
			results = append(results, o)
		case fReturn:
			results = append(results, o)
		default:
			o.st.vars[iv] = VTerm{T: mkArith("+", idx, mkInt(1)), Typ: types.Typ[types.Int]}
			e.checkHavocComplete(head, o.st, h, e.src(x))
			e.assertInvariants(x, o.st, pos, "preserve")
		}
	}
	return results
}

// range over a map: the keys are visited in the order of an arbitrary fixed enumeration mapkey(H, 0..mapcard(H)-1)
func (e *Engine) execRangeMap(x *ast.RangeStmt, st *State) []Out {
	m, ok := e.eval(x.X, st).(VMap)
	if !ok {
		unsup("range over non-map value")
	}
	ktag := sortTag(m.Has.Sort.key())
	if _, ok := prelude["mapkey_"+ktag]; !ok {
		unsup("range over a map with key sort %s", ktag)
	}
	card := mkApp("mapcard_"+ktag, SInt, m.Has)
	ord := e.loopOrdinal(x)
	iv, ok := e.loopIdx[x]
	if !ok {
		iv = types.NewVar(x.Pos(), e.pkg().Types, fmt.Sprintf("idx%d", ord), types.Typ[types.Int])
		e.loopIdx[x] = iv
	}
	if len(e.loopClauses(x, "invariant")) == 0 {
		unsup("loop without invariant at %s (loop#%d)", e.src(x), ord)
	}
	pos := x.Body.Lbrace + 1
	st.vars[iv] = VTerm{T: mkInt(0), Typ: types.Typ[types.Int]}
	e.assertInvariants(x, st, pos, "establish")
	h := e.collectHavoc([]ast.Node{x.Body}, st)
	h.vars[iv] = true
	head := st.clone()
	e.applyHavoc(h, head)
	idx := term(head.vars[iv])
	head.assume(mkAnd(mkCmp("<=", mkInt(0), idx), mkCmp("<=", idx, card)))
	for _, t := range e.evalInvariants(x, head, pos) {
		head.assume(t)
	}
	var results []Out
	exit := head.clone()
	exit.assume(mkCmp(">=", idx, card))
	results = append(results, Out{st: exit})
	body := head.clone()
	body.assume(mkCmp("<", idx, card))
	key := mkApp("mapkey_"+ktag, m.Has.Sort.key(), m.Has, idx)
	if x.Key != nil {
		if id, ok := x.Key.(*ast.Ident); ok && id.Name != "_" {
			body.vars[e.info().Defs[id]] = e.wrap(key, m.Key)
		}
	}
	if x.Value != nil {
		if id, ok := x.Value.(*ast.Ident); ok && id.Name != "_" {
			v, _ := e.mapGet(m, key)
			body.vars[e.info().Defs[id]] = v
		}
	}
	for _, o := range e.execBlock(x.Body.List, body) {
		switch o.kind {
		case fBreak:
			o.kind = fNormal
			results = append(results, o)
		case fReturn:
			results = append(results, o)
		default:
			o.st.vars[iv] = VTerm{T: mkArith("+", idx, mkInt(1)), Typ: types.Typ[types.Int]}
			e.checkHavocComplete(head, o.st, h, e.src(x))
			e.assertInvariants(x, o.st, pos, "preserve")
		}
	}
	return results
}
