package main

// Spec expression language (Go-like expressions extended with ==>, forall/exists, ?:, old)
// and the contract-file reader.

import (
	"fmt"
	"os"
	"path/filepath"
	"regexp"
	"strconv"
	"strings"
)

type SExpr struct {
	Kind string // "int","float","ident","unary","binary","call","index","field","forall","exists","cond","old"
	Val  string // literal text / ident name / operator / field name
	Args []*SExpr
	Vars []string // bound variables
	Pos  string
}

func (e *SExpr) String() string {
	switch e.Kind {
	case "str":
		return strconv.Quote(e.Val)
	case "int", "float", "ident":
		return e.Val
	case "unary":
		return e.Val + e.Args[0].String()
	case "binary":
		return "(" + e.Args[0].String() + " " + e.Val + " " + e.Args[1].String() + ")"
	case "call":
		var as []string
		for _, a := range e.Args[1:] {
			as = append(as, a.String())
		}
		return e.Args[0].String() + "(" + strings.Join(as, ", ") + ")"
	case "index":
		return e.Args[0].String() + "[" + e.Args[1].String() + "]"
	case "field":
		return e.Args[0].String() + "." + e.Val
	case "forall", "exists":
		return "(" + e.Kind + " " + strings.Join(e.Vars, ",") + " :: " + e.Args[0].String() + ")"
	case "cond":
		return "(" + e.Args[0].String() + " ? " + e.Args[1].String() + " : " + e.Args[2].String() + ")"
	case "old":
		return "old(" + e.Args[0].String() + ")"
	}
	return "?"
}

type tok struct {
	k string // "int","float","ident","op","eof"
	v string
}

func lexSpec(s string) ([]tok, error) {
	var out []tok
	i := 0
	for i < len(s) {
		c := s[i]
		switch {
		case c == ' ' || c == '\t':
			i++
		case c >= '0' && c <= '9':
			j := i
			isF := false
			for j < len(s) && (s[j] >= '0' && s[j] <= '9' || s[j] == '.') {
				if s[j] == '.' {
					// ".." is not part of number
					if j+1 < len(s) && s[j+1] == '.' {
						break
					}
					isF = true
				}
				j++
			}
			if isF {
				out = append(out, tok{"float", s[i:j]})
			} else {
				out = append(out, tok{"int", s[i:j]})
			}
			i = j
		case c == '"':
			j := i + 1
			for j < len(s) && s[j] != '"' {
				j++
			}
			if j >= len(s) {
				return nil, fmt.Errorf("spec lexer: unterminated string in %q", s)
			}
			out = append(out, tok{"str", s[i+1 : j]})
			i = j + 1
		case c == '_' || c >= 'a' && c <= 'z' || c >= 'A' && c <= 'Z':
			j := i
			for j < len(s) && (s[j] == '_' || s[j] == '#' || s[j] >= 'a' && s[j] <= 'z' || s[j] >= 'A' && s[j] <= 'Z' || s[j] >= '0' && s[j] <= '9') {
				j++
			}
			out = append(out, tok{"ident", s[i:j]})
			i = j
		default:
			ops := []string{"==>", "<==>", "::", "==", "!=", "<=", ">=", "&&", "||", "<", ">", "+", "-", "*", "/", "%", "!", "(", ")", "[", "]", ",", ".", "?", ":"}
			matched := false
			for _, op := range ops {
				if strings.HasPrefix(s[i:], op) {
					out = append(out, tok{"op", op})
					i += len(op)
					matched = true
					break
				}
			}
			if !matched {
				return nil, fmt.Errorf("spec lexer: unexpected %q in %q", c, s)
			}
		}
	}
	out = append(out, tok{"eof", ""})
	return out, nil
}

type sparser struct {
	toks []tok
	p    int
	src  string
}

func parseSpec(s string) (e *SExpr, err error) {
	toks, err := lexSpec(s)
	if err != nil {
		return nil, err
	}
	p := &sparser{toks: toks, src: s}
	defer func() {
		if r := recover(); r != nil {
			if pe, ok := r.(parseErr); ok {
				err = fmt.Errorf("%s in spec %q", string(pe), s)
				return
			}
			panic(r)
		}
	}()
	e = p.expr()
	if p.peek().k != "eof" {
		p.fail("trailing tokens at " + p.peek().v)
	}
	return e, nil
}

type parseErr string

func (p *sparser) fail(m string)      { panic(parseErr(m)) }
func (p *sparser) peek() tok          { return p.toks[p.p] }
func (p *sparser) next() tok          { t := p.toks[p.p]; p.p++; return t }
func (p *sparser) isOp(v string) bool { t := p.peek(); return t.k == "op" && t.v == v }
func (p *sparser) expect(v string) {
	if !p.isOp(v) {
		p.fail("expected " + v + " got " + p.peek().v)
	}
	p.p++
}

func (p *sparser) expr() *SExpr {
	t := p.peek()
	if t.k == "ident" && (t.v == "forall" || t.v == "exists") {
		p.next()
		var vars []string
		for {
			v := p.next()
			if v.k != "ident" {
				p.fail("expected bound variable")
			}
			name := v.v
			if nt := p.peek(); nt.k == "ident" && (nt.v == "str" || nt.v == "int" || nt.v == "real" || nt.v == "ref") {
				p.next()
				name += ":" + nt.v
			}
			vars = append(vars, name)
			if p.isOp(",") {
				p.next()
				continue
			}
			break
		}
		p.expect("::")
		body := p.expr()
		return &SExpr{Kind: t.v, Vars: vars, Args: []*SExpr{body}}
	}
	return p.iff()
}

func (p *sparser) iff() *SExpr {
	l := p.impl()
	for p.isOp("<==>") {
		p.next()
		r := p.impl()
		l = &SExpr{Kind: "binary", Val: "<==>", Args: []*SExpr{l, r}}
	}
	return l
}

func (p *sparser) impl() *SExpr {
	l := p.cond()
	if p.isOp("==>") {
		p.next()
		var r *SExpr
		t := p.peek()
		if t.k == "ident" && (t.v == "forall" || t.v == "exists") {
			r = p.expr()
		} else {
			r = p.impl()
		}
		return &SExpr{Kind: "binary", Val: "==>", Args: []*SExpr{l, r}}
	}
	return l
}

func (p *sparser) cond() *SExpr {
	c := p.or()
	if p.isOp("?") {
		p.next()
		a := p.cond()
		p.expect(":")
		b := p.cond()
		return &SExpr{Kind: "cond", Args: []*SExpr{c, a, b}}
	}
	return c
}

func (p *sparser) or() *SExpr {
	l := p.and()
	for p.isOp("||") {
		p.next()
		r := p.and()
		l = &SExpr{Kind: "binary", Val: "||", Args: []*SExpr{l, r}}
	}
	return l
}

func (p *sparser) and() *SExpr {
	l := p.cmp()
	for p.isOp("&&") {
		p.next()
		r := p.cmp()
		l = &SExpr{Kind: "binary", Val: "&&", Args: []*SExpr{l, r}}
	}
	return l
}

func (p *sparser) cmp() *SExpr {
	l := p.add()
	for _, op := range []string{"==", "!=", "<=", ">=", "<", ">"} {
		if p.isOp(op) {
			p.next()
			r := p.add()
			return &SExpr{Kind: "binary", Val: op, Args: []*SExpr{l, r}}
		}
	}
	return l
}

func (p *sparser) add() *SExpr {
	l := p.mul()
	for p.isOp("+") || p.isOp("-") {
		op := p.next().v
		r := p.mul()
		l = &SExpr{Kind: "binary", Val: op, Args: []*SExpr{l, r}}
	}
	return l
}

func (p *sparser) mul() *SExpr {
	l := p.unary()
	for p.isOp("*") || p.isOp("/") || p.isOp("%") {
		op := p.next().v
		r := p.unary()
		l = &SExpr{Kind: "binary", Val: op, Args: []*SExpr{l, r}}
	}
	return l
}

func (p *sparser) unary() *SExpr {
	if p.isOp("!") || p.isOp("-") {
		op := p.next().v
		a := p.unary()
		return &SExpr{Kind: "unary", Val: op, Args: []*SExpr{a}}
	}
	return p.postfix()
}

func (p *sparser) postfix() *SExpr {
	e := p.primary()
	for {
		switch {
		case p.isOp("."):
			p.next()
			f := p.next()
			if f.k != "ident" {
				p.fail("expected field name")
			}
			e = &SExpr{Kind: "field", Val: f.v, Args: []*SExpr{e}}
		case p.isOp("["):
			p.next()
			i := p.expr()
			p.expect("]")
			e = &SExpr{Kind: "index", Args: []*SExpr{e, i}}
		case p.isOp("("):
			p.next()
			args := []*SExpr{e}
			for !p.isOp(")") {
				args = append(args, p.expr())
				if p.isOp(",") {
					p.next()
				}
			}
			p.expect(")")
			if e.Kind == "ident" && e.Val == "old" {
				if len(args) != 2 {
					p.fail("old takes one argument")
				}
				e = &SExpr{Kind: "old", Args: []*SExpr{args[1]}}
			} else {
				e = &SExpr{Kind: "call", Args: args}
			}
		default:
			return e
		}
	}
}

func (p *sparser) primary() *SExpr {
	t := p.next()
	switch t.k {
	case "int":
		return &SExpr{Kind: "int", Val: t.v}
	case "float":
		return &SExpr{Kind: "float", Val: t.v}
	case "str":
		return &SExpr{Kind: "str", Val: t.v}
	case "ident":
		return &SExpr{Kind: "ident", Val: t.v}
	case "op":
		if t.v == "(" {
			e := p.expr()
			p.expect(")")
			return e
		}
	}
	p.fail("unexpected token " + t.v)
	return nil
}

// ---------------------------------------------------------------------------------------------
// Contract files

type Clause struct {
	Kind  string   // requires, ensures, invariant, decreases, modifies, borrows, yields, assert, use, ...
	Tags  []string // property ids
	Label string   // optional label (name after kind: ensures[C16] "len": ...)
	Text  string
	Expr  *SExpr
	Scope string   // "" (function) or "loop#i" / "lit#i"
	Where string   // file:line
	Names []string // for modifies/borrows etc: identifiers
}

type Contract struct {
	Key     string // "Skip" or "Ring.Put"
	Pkg     string
	Clauses []*Clause
	Trusted bool
	Pure    bool
	Inline  bool
	Where   string
	Attrs   map[string]string
}

func (c *Contract) byKind(kind, scope string) []*Clause {
	var out []*Clause
	for _, cl := range c.Clauses {
		if cl.Kind == kind && cl.Scope == scope {
			out = append(out, cl)
		}
	}
	return out
}

func (c *Contract) tags() []string {
	seen := map[string]bool{}
	var out []string
	for _, cl := range c.Clauses {
		for _, t := range cl.Tags {
			if !seen[t] {
				seen[t] = true
				out = append(out, t)
			}
		}
	}
	return out
}

var reClause = regexp.MustCompile(`^((?:loop|lit)#\d+\s+)?([a-z_]+)(\[[A-Za-z0-9,\s]*\])?(\s+"[^"]*")?(?:\s+(.*))?$`)

// readContracts parses every zz_contracts_verif.go style file in dir (one package).
var reLemma = regexp.MustCompile(`^lemma\s+([A-Za-z_][A-Za-z0-9_]*)\s*\(([^)]*)\)\s*$`)

var reMacro = regexp.MustCompile(`^macro\s+([A-Za-z_][A-Za-z0-9_]*)\s*\(([^)]*)\)\s*=\s*(.*)$`)

// TypeInv: the admissible configurations of a named type (its public fields are not protected by constructors)
type TypeInv struct {
	Type  string
	Expr  *SExpr
	Where string
	Text  string
}

var fileTypeInvs []*TypeInv

// abstraction functions: the ghost view of an object of the type is the value of the expression
var fileAbsFns []*TypeInv

var fileMacros []*Macro
var rawMacros []struct{ name, params, body, where, pkg string }

func readContractFile(path, pkg string) ([]*Contract, error) {
	data, err := os.ReadFile(path)
	if err != nil {
		return nil, err
	}
	var out []*Contract
	var cur *Contract
	var last *Clause
	for ln, line := range strings.Split(string(data), "\n") {
		line = strings.TrimSpace(line)
		if !strings.HasPrefix(line, "//@") {
			continue
		}
		body := strings.TrimSpace(strings.TrimPrefix(line, "//@"))
		if body == "" {
			continue
		}
		where := fmt.Sprintf("%s:%d", filepath.Base(filepath.Dir(path))+"/"+filepath.Base(path), ln+1)
		// strip trailing comment  " // ..."
		if i := strings.Index(body, " // "); i >= 0 {
			body = strings.TrimSpace(body[:i])
		}
		if strings.HasPrefix(body, "..") {
			if last == nil {
				return nil, fmt.Errorf("%s: continuation without clause", where)
			}
			last.Text += " " + strings.TrimSpace(strings.TrimPrefix(body, ".."))
			continue
		}
		if strings.HasPrefix(body, "macro ") {
			m := reMacro.FindStringSubmatch(body)
			if m == nil {
				return nil, fmt.Errorf("%s: cannot parse macro %q", where, body)
			}
			e, err := parseSpec(m[3])
			if err != nil {
				return nil, fmt.Errorf("%s: %v", where, err)
			}
			var ps []string
			for _, p := range strings.Split(m[2], ",") {
				if p = strings.TrimSpace(p); p != "" {
					ps = append(ps, p)
				}
			}
			fileMacros = append(fileMacros, &Macro{Name: m[1], Params: ps, Body: e, Pkg: pkg})
			cur = nil
			last = nil
			continue
		}
		if strings.HasPrefix(body, "absfn ") {
			// //@ absfn InMemoryRepository :: self.storage    (the ghost view(self) of the interface contract is this field)
			f := strings.SplitN(strings.TrimPrefix(body, "absfn "), "::", 2)
			if len(f) != 2 {
				return nil, fmt.Errorf("%s: cannot parse absfn %q", where, body)
			}
			x, err := parseSpec(strings.TrimSpace(f[1]))
			if err != nil {
				return nil, fmt.Errorf("%s: %v", where, err)
			}
			fileAbsFns = append(fileAbsFns, &TypeInv{Type: pkg + "." + strings.TrimSpace(f[0]), Expr: x, Where: where, Text: strings.TrimSpace(f[1])})
			cur = nil
			last = nil
			continue
		}
		if strings.HasPrefix(body, "typeinv ") {
			// //@ typeinv Sma :: self.Period >= 1   (admissible configurations of the type; assumed, see refine.go)
			f := strings.SplitN(strings.TrimPrefix(body, "typeinv "), "::", 2)
			if len(f) != 2 {
				return nil, fmt.Errorf("%s: cannot parse typeinv %q", where, body)
			}
			x, err := parseSpec(strings.TrimSpace(f[1]))
			if err != nil {
				return nil, fmt.Errorf("%s: %v", where, err)
			}
			fileTypeInvs = append(fileTypeInvs, &TypeInv{Type: pkg + "." + strings.TrimSpace(f[0]), Expr: x, Where: where})
			cur = nil
			last = nil
			continue
		}
		if strings.HasPrefix(body, "stream ") {
			d, err := parseStreamDef(body, where, pkg)
			if err != nil {
				return nil, err
			}
			fileStreams = append(fileStreams, d)
			cur = nil
			last = nil
			continue
		}
		if strings.HasPrefix(body, "lemma ") {
			m := reLemma.FindStringSubmatch(body)
			if m == nil {
				return nil, fmt.Errorf("%s: cannot parse lemma header %q", where, body)
			}
			cur = &Contract{Key: "lemma:" + m[1], Pkg: pkg, Where: where, Attrs: map[string]string{"params": m[2]}}
			out = append(out, cur)
			last = nil
			continue
		}
		if strings.HasPrefix(body, "func ") {
			key := strings.TrimSpace(strings.TrimPrefix(body, "func "))
			key = strings.NewReplacer("(", "", ")", "", "*", "").Replace(key)
			cur = &Contract{Key: key, Pkg: pkg, Where: where, Attrs: map[string]string{}}
			out = append(out, cur)
			last = nil
			continue
		}
		if cur == nil {
			return nil, fmt.Errorf("%s: clause outside func", where)
		}
		m := reClause.FindStringSubmatch(body)
		if m == nil {
			return nil, fmt.Errorf("%s: cannot parse clause %q", where, body)
		}
		cl := &Clause{Scope: strings.TrimSpace(m[1]), Kind: m[2], Text: m[5], Where: where}
		if m[3] != "" {
			for _, t := range strings.Split(strings.Trim(m[3], "[]"), ",") {
				if t = strings.TrimSpace(t); t != "" {
					cl.Tags = append(cl.Tags, t)
				}
			}
		}
		if m[4] != "" {
			cl.Label = strings.Trim(strings.TrimSpace(m[4]), `"`)
		}
		switch cl.Kind {
		case "trusted":
			cur.Trusted = true
			cur.Attrs["trusted"] = cl.Text
			last = nil
			continue
		case "pure":
			cur.Pure = true
			last = nil
			continue
		case "inline":
			cur.Inline = true
			last = nil
			continue
		case "attr":
			kv := strings.SplitN(cl.Text, "=", 2)
			if len(kv) == 2 {
				cur.Attrs[strings.TrimSpace(kv[0])] = strings.TrimSpace(kv[1])
			}
			last = nil
			continue
		}
		cur.Clauses = append(cur.Clauses, cl)
		last = cl
	}
	// parse expressions
	for _, c := range out {
		for _, cl := range c.Clauses {
			switch cl.Kind {
			case "modifies", "borrows", "moves", "flushes", "witness", "stateless", "induction", "import", "rel":
				for _, n := range strings.Split(cl.Text, ",") {
					if n = strings.TrimSpace(n); n != "" {
						cl.Names = append(cl.Names, n)
					}
				}
			case "use", "thenuse":
				e, err := parseSpec(cl.Text)
				if err != nil {
					return nil, fmt.Errorf("%s: %v", cl.Where, err)
				}
				cl.Expr = e
			default:
				e, err := parseSpec(cl.Text)
				if err != nil {
					return nil, fmt.Errorf("%s: %v", cl.Where, err)
				}
				cl.Expr = e
			}
		}
	}
	return out, nil
}

func atoi(s string) int { n, _ := strconv.Atoi(s); return n }
