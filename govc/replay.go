package main

// Replay / runtime assertion checking of a function contract on the real code:
// a generated in-package test (injected with `go test -overlay`, nothing is written to /repo) enumerates small
// inputs, runs the function, and evaluates the contract's requires/ensures with an interpreter on the observed
// streams. Used (a) to turn a failed obligation into a concrete failing input, (b) in the thorough tier to validate
// every contract (and the engine) against the real code.

import (
	_ "embed"
	"encoding/json"
	"fmt"
	"go/types"
	"os"
	"os/exec"
	"path/filepath"
	"sort"
	"strings"
	"time"
)

//go:embed harness_interp.txt
var harnessInterp string

type jsExpr struct {
	K    string    `json:"k"`
	V    string    `json:"v,omitempty"`
	A    []*jsExpr `json:"a,omitempty"`
	Vars []string  `json:"vars,omitempty"`
}

func (e *Engine) toJS(x *SExpr, subst map[string]*SExpr, depth int) *jsExpr {
	if depth > 20 {
		return &jsExpr{K: "ident", V: "?"}
	}
	if x.Kind == "ident" {
		if r, ok := subst[x.Val]; ok {
			return e.toJS(r, nil, depth+1)
		}
	}
	// macro expansion
	if x.Kind == "call" && x.Args[0].Kind == "ident" {
		if m, ok := e.macros[x.Args[0].Val]; ok && len(m.Params) == len(x.Args)-1 {
			s2 := map[string]*SExpr{}
			for i, p := range m.Params {
				s2[p] = substSExpr(x.Args[i+1], subst)
			}
			return e.toJS(m.Body, s2, depth+1)
		}
	}
	out := &jsExpr{K: x.Kind, V: x.Val, Vars: x.Vars}
	sub := subst
	if len(x.Vars) > 0 && subst != nil {
		sub = map[string]*SExpr{}
		for k, v := range subst {
			sub[k] = v
		}
		for _, v := range x.Vars {
			delete(sub, v)
		}
	}
	for _, a := range x.Args {
		out.A = append(out.A, e.toJS(a, sub, depth))
	}
	return out
}

// streamDefsJSON: the derived-stream definitions in the form the harness interpreter evaluates
func (e *Engine) streamDefsJSON() string {
	type jsDef struct {
		Params []string `json:"params"`
		Idx    string   `json:"idx"`
		Body   *jsExpr  `json:"body"`
	}
	out := map[string]jsDef{}
	for _, d := range fileStreams {
		var ps []string
		for _, p := range d.Params {
			ps = append(ps, p.name)
		}
		out[d.Name] = jsDef{Params: ps, Idx: d.Idx, Body: e.toJS(d.Body, nil, 0)}
	}
	b, _ := json.Marshal(out)
	return string(b)
}

func substSExpr(x *SExpr, subst map[string]*SExpr) *SExpr {
	if subst == nil {
		return x
	}
	if x.Kind == "ident" {
		if r, ok := subst[x.Val]; ok {
			return r
		}
		return x
	}
	n := *x
	n.Args = nil
	for _, a := range x.Args {
		n.Args = append(n.Args, substSExpr(a, subst))
	}
	return &n
}

type ReplayFailure struct {
	Kind    string                 `json:"kind"`
	Clause  string                 `json:"clause"`
	Label   string                 `json:"label"`
	Text    string                 `json:"text"`
	Config  map[string]float64     `json:"config"`
	Inputs  map[string]interface{} `json:"inputs"`
	Outputs map[string]interface{} `json:"outputs"`
	Witness []string               `json:"witness"`
}

type ReplayResult struct {
	Function   string            `json:"function"`
	Evaluated  int               `json:"evaluated"`
	Distinct   int               `json:"distinct_nontrivial"`
	Inadmiss   int               `json:"skipped_by_requires"`
	ClauseSkip map[string]string `json:"clauses_not_executable"`
	Failures   []ReplayFailure   `json:"failures"`
	Error      string            `json:"error,omitempty"`
	Seconds    float64           `json:"seconds"`
	Supported  bool              `json:"supported"`
	Reason     string            `json:"reason,omitempty"`
}

type rgen struct {
	e          *Engine
	fi         *FuncInfo
	pkgPath    string
	imports    map[string]string // path -> name
	nGrid      int
	gridDoc    []string
	needStub   bool
	needReport bool
	fail       string
}

func importAlias(path string) string {
	if strings.HasPrefix(path, modPath+"/") {
		return "zz_" + strings.ReplaceAll(strings.TrimPrefix(path, modPath+"/"), "/", "_")
	}
	return ""
}

func (g *rgen) qual(p *types.Package) string {
	if p == nil || p.Path() == g.pkgPath {
		return ""
	}
	g.imports[p.Path()] = p.Name()
	if a := importAlias(p.Path()); a != "" {
		return a + "."
	}
	return p.Name() + "."
}

func (g *rgen) newGrid(doc string) string {
	i := g.nGrid
	g.nGrid++
	g.gridDoc = append(g.gridDoc, doc)
	return fmt.Sprintf("zzG[%d]", i)
}

func floatDefault(name string) string {
	switch {
	case strings.Contains(name, "Percentage"):
		return "0.1"
	case strings.Contains(name, "Smoothing"):
		return "2"
	case name == "BuyAt":
		return "30"
	case name == "SellAt":
		return "70"
	case name == "BuySignalAt":
		return "60"
	case strings.Contains(name, "Multiplier"):
		return "3"
	case name == "Initial":
		return "1000"
	}
	return "1"
}

func (g *rgen) typeStr(t types.Type) string {
	switch x := t.(type) {
	case *types.TypeParam:
		return "float64"
	case *types.Pointer:
		return "*" + g.typeStr(x.Elem())
	case *types.Named:
		s := g.qual(x.Obj().Pkg()) + x.Obj().Name()
		if x.TypeArgs() != nil && x.TypeArgs().Len() > 0 {
			var as []string
			for i := 0; i < x.TypeArgs().Len(); i++ {
				as = append(as, g.typeStr(x.TypeArgs().At(i)))
			}
			s += "[" + strings.Join(as, ", ") + "]"
		} else if x.TypeParams() != nil && x.TypeParams().Len() > 0 {
			var as []string
			for i := 0; i < x.TypeParams().Len(); i++ {
				as = append(as, "float64")
			}
			s += "[" + strings.Join(as, ", ") + "]"
		}
		return s
	case *types.Basic:
		return x.Name()
	case *types.Slice:
		return "[]" + g.typeStr(x.Elem())
	case *types.Chan:
		return "<-chan " + g.typeStr(x.Elem())
	case *types.Alias:
		return g.typeStr(types.Unalias(x))
	}
	g.fail = "unsupported type " + t.String()
	return "interface{}"
}

// Go expression constructing a configuration value of type t
func (g *rgen) genVal(t types.Type, path, fname string, depth int) string {
	if depth > 6 {
		g.fail = "configuration too deep"
		return "nil"
	}
	if a, ok := t.(*types.Alias); ok {
		t = types.Unalias(a)
	}
	if _, ok := t.(*types.TypeParam); ok {
		return floatDefault(fname)
	}
	switch u := t.Underlying().(type) {
	case *types.Basic:
		switch {
		case u.Info()&types.IsInteger != 0:
			return g.newGrid(path)
		case u.Info()&types.IsFloat != 0:
			return floatDefault(fname)
		case u.Info()&types.IsBoolean != 0:
			return "false"
		case u.Info()&types.IsString != 0:
			return `"x"`
		}
	case *types.Pointer:
		if _, ok := u.Elem().Underlying().(*types.Struct); ok {
			return "&" + g.genStruct(u.Elem(), path, depth)
		}
	case *types.Struct:
		return g.genStruct(t, path, depth)
	case *types.Slice:
		if n, ok := u.Elem().(*types.Named); ok && n.Obj().Name() == "Strategy" {
			g.needStub = true
			sq := "zz_strategy."
			if g.pkgPath == modPath+"/strategy" {
				sq = ""
			}
			return "[]" + sq + "Strategy{&zzStub{w: " + g.newGrid(path+"[0].warmup") + ", seed: zzSeed}, &zzStub{w: " + g.newGrid(path+"[1].warmup") + ", seed: zzSeed + 1}, &zzStub{w: " + g.newGrid(path+"[2].warmup") + ", seed: zzSeed + 2}}"
		}
	case *types.Interface:
		if n, ok := t.(*types.Named); ok {
			switch n.Obj().Name() {
			case "Ma":
				g.imports[modPath+"/trend"] = "trend"
				q := "zz_trend."
				if g.pkgPath == modPath+"/trend" {
					q = ""
				}
				return q + "NewSmaWithPeriod[float64](1+" + g.newGrid(path+".Period(minus 1)") + ")"
			case "Strategy":
				g.needStub = true
				return "&zzStub{w: " + g.newGrid(path+".warmup") + ", seed: zzSeed}"
			}
		}
	}
	g.fail = "cannot construct a value of type " + t.String() + " for " + path
	return "nil"
}

func (g *rgen) genStruct(t types.Type, path string, depth int) string {
	st := t.Underlying().(*types.Struct)
	var fs []string
	for i := 0; i < st.NumFields(); i++ {
		f := st.Field(i)
		if !f.Exported() && f.Pkg() != nil && f.Pkg().Path() != g.pkgPath {
			g.fail = "unexported field " + f.Name() + " of foreign type"
			continue
		}
		fs = append(fs, f.Name()+": "+g.genVal(f.Type(), path+"."+f.Name(), f.Name(), depth+1))
	}
	return g.typeStr(t) + "{" + strings.Join(fs, ", ") + "}"
}

func isSnapshotPtr(t types.Type) bool {
	p, ok := t.(*types.Pointer)
	if !ok {
		return false
	}
	n, ok := p.Elem().(*types.Named)
	return ok && n.Obj().Name() == "Snapshot"
}

// genHarness returns the Go source of the replay test for fi, or an error string when the signature is not supported
func (e *Engine) genHarness(fi *FuncInfo, ncases int) (string, string) {
	g := &rgen{e: e, fi: fi, pkgPath: fi.Pkg.PkgPath, imports: map[string]string{}}
	sig := fi.Obj.Type().(*types.Signature)
	c := fi.Contract
	if len(c.byKind("modifies", "")) > 0 {
		return "", "stateful method (modifies): covered by history replay, not by this harness"
	}
	inHelper := g.pkgPath == modPath+"/helper"
	hq := "helper."
	if inHelper {
		hq = ""
	}
	var pre, envVars, consumedVars, closedVars, inputsDoc, settleT, settleW []string
	var callArgs []string
	recvName := ""
	callee := fi.Decl.Name.Name
	if sig.Recv() != nil {
		rt := sig.Recv().Type()
		recvExpr := g.genVal(rt, "recv", "", 0)
		pre = append(pre, "recv := "+recvExpr)
		if fi.Decl.Recv != nil && len(fi.Decl.Recv.List[0].Names) > 0 {
			recvName = fi.Decl.Recv.List[0].Names[0].Name
			envVars = append(envVars, fmt.Sprintf("%q: reflect.ValueOf(recv)", recvName))
		}
		envVars = append(envVars, `"self": reflect.ValueOf(recv)`)
		callee = "recv." + callee
	} else if sig.TypeParams() != nil && sig.TypeParams().Len() > 0 {
		var as []string
		for i := 0; i < sig.TypeParams().Len(); i++ {
			as = append(as, "float64")
		}
		callee += "[" + strings.Join(as, ", ") + "]"
	}
	for i := 0; i < sig.Params().Len(); i++ {
		p := sig.Params().At(i)
		name := p.Name()
		if name == "" || name == "_" {
			return "", "unnamed parameter"
		}
		pt := p.Type()
		if a, ok := pt.(*types.Alias); ok {
			pt = types.Unalias(a)
		}
		switch u := pt.Underlying().(type) {
		case *types.Chan:
			if u.Dir() == types.SendOnly {
				return "", "send-only channel parameter"
			}
			el := u.Elem()
			switch {
			case isSnapshotPtr(el):
				g.imports[modPath+"/asset"] = "asset"
				aq := "zz_asset."
				if g.pkgPath == modPath+"/asset" {
					aq = ""
				}
				pre = append(pre, fmt.Sprintf("in_%s := zzSnapshots(zzN, zzPattern, zzSeed+%d)", name, i))
				pre = append(pre, fmt.Sprintf("var taken_%s int64", name))
				callArgs = append(callArgs, fmt.Sprintf("zzFeedT[*%sSnapshot](in_%s, &taken_%s)", aq, name, name))
				envVars = append(envVars, fmt.Sprintf("%q: zzRefl(in_%s)", name, name))
				inputsDoc = append(inputsDoc, fmt.Sprintf("%q: zzSnapDoc(in_%s)", name, name))
			default:
				es := g.e.safeSort(el)
				if es != SReal && es != SInt && !strings.HasPrefix(string(es), "U_") {
					return "", "stream parameter of element type " + el.String()
				}
				et := g.typeStr(el)
				pre = append(pre, fmt.Sprintf("in_%s := zzSeries(zzN, zzPattern, zzSeed+%d)", name, i))
				pre = append(pre, fmt.Sprintf("var taken_%s int64", name))
				if et == "float64" {
					callArgs = append(callArgs, fmt.Sprintf("zzFeedT[float64](in_%s, &taken_%s)", name, name))
				} else {
					pre = append(pre, fmt.Sprintf("cv_%s := make([]%s, len(in_%s)); for i, v := range in_%s { cv_%s[i] = %s(zzAct(v)) }", name, et, name, name, name, et))
					pre = append(pre, fmt.Sprintf("for i := range in_%s { in_%s[i] = zzAct(in_%s[i]) }", name, name, name))
					callArgs = append(callArgs, fmt.Sprintf("zzFeedT[%s](cv_%s, &taken_%s)", et, name, name))
				}
				envVars = append(envVars, fmt.Sprintf("%q: in_%s", name, name))
				inputsDoc = append(inputsDoc, fmt.Sprintf("%q: in_%s", name, name))
			}
			consumedVars = append(consumedVars, fmt.Sprintf("%q: float64(atomic.LoadInt64(&taken_%s))", name, name))
			settleT = append(settleT, "&taken_"+name)
			settleW = append(settleW, "len(in_"+name+")")
		case *types.Basic:
			switch {
			case u.Info()&types.IsInteger != 0:
				gv := g.newGrid("param " + name)
				pre = append(pre, fmt.Sprintf("p_%s := %s", name, gv))
				callArgs = append(callArgs, "p_"+name)
				envVars = append(envVars, fmt.Sprintf("%q: float64(p_%s)", name, name))
				inputsDoc = append(inputsDoc, fmt.Sprintf("%q: p_%s", name, name))
			case u.Info()&types.IsFloat != 0:
				pre = append(pre, fmt.Sprintf("p_%s := float64(zzG[%d]) + 0.5", name, g.nGrid))
				g.newGrid("param " + name)
				callArgs = append(callArgs, "p_"+name)
				envVars = append(envVars, fmt.Sprintf("%q: p_%s", name, name))
				inputsDoc = append(inputsDoc, fmt.Sprintf("%q: p_%s", name, name))
			default:
				return "", "parameter " + name + " of type " + pt.String()
			}
		case *types.Slice:
			if g.e.safeSort(u.Elem()) == SReal || strings.HasPrefix(string(g.e.safeSort(u.Elem())), "U_") {
				pre = append(pre, fmt.Sprintf("in_%s := zzSeries(zzN, zzPattern, zzSeed+%d)", name, i))
				callArgs = append(callArgs, "in_"+name)
				envVars = append(envVars, fmt.Sprintf("%q: in_%s", name, name))
				inputsDoc = append(inputsDoc, fmt.Sprintf("%q: in_%s", name, name))
			} else {
				return "", "slice parameter " + name
			}
		case *types.Interface:
			if n, ok := pt.(*types.Named); ok && n.Obj().Name() == "Strategy" {
				g.needStub = true
				pre = append(pre, fmt.Sprintf("p_%s := &zzStub{w: %s, seed: zzSeed}", name, g.newGrid("param "+name+".warmup")))
				callArgs = append(callArgs, "p_"+name)
				envVars = append(envVars, fmt.Sprintf("%q: reflect.ValueOf(p_%s)", name, name))
				continue
			}
			if _, isTP := pt.(*types.TypeParam); isTP {
				// scalar of type parameter T
				pre = append(pre, fmt.Sprintf("p_%s := float64(zzG[%d])", name, g.nGrid))
				g.newGrid("param " + name)
				callArgs = append(callArgs, "p_"+name)
				envVars = append(envVars, fmt.Sprintf("%q: p_%s", name, name))
				inputsDoc = append(inputsDoc, fmt.Sprintf("%q: p_%s", name, name))
				continue
			}
			return "", "parameter " + name + " of type " + pt.String()
		default:
			return "", "parameter " + name + " of type " + pt.String()
		}
	}
	// results
	nres := sig.Results().Len()
	var resNames, drains, outDoc []string
	for i := 0; i < nres; i++ {
		rn := fmt.Sprintf("r%d", i)
		resNames = append(resNames, rn)
		key := fmt.Sprintf("result%d", i)
		rt := sig.Results().At(i).Type()
		if a, ok := rt.(*types.Alias); ok {
			rt = types.Unalias(a)
		}
		switch u := rt.Underlying().(type) {
		case *types.Chan:
			el := u.Elem()
			conv := "func(v " + g.typeStr(el) + ") float64 { return float64(v) }"
			if n, ok := el.(*types.Named); ok && n.Obj().Name() == "Time" {
				conv = "func(v time.Time) float64 { return float64(v.Unix()) }"
			} else if b, ok := el.Underlying().(*types.Basic); ok && b.Info()&types.IsString != 0 {
				conv = "func(v string) float64 { return float64(len(v)) }"
			} else if g.e.safeSort(el) != SReal && g.e.safeSort(el) != SInt && !strings.HasPrefix(string(g.e.safeSort(el)), "U_") {
				return "", "result stream of element type " + el.String()
			}
			drains = append(drains, fmt.Sprintf("col%d := &zzCollector{}; zzDrain(%s, col%d, &wg, %s)", i, rn, i, conv))
			envVars = append(envVars, fmt.Sprintf("%q: col%d.vals", key, i))
			closedVars = append(closedVars, fmt.Sprintf("%q: col%d.closed", key, i))
			outDoc = append(outDoc, fmt.Sprintf("%q: col%d.vals", key, i))
			if nres == 1 {
				envVars = append(envVars, fmt.Sprintf("%q: col%d.vals", "result", i))
				closedVars = append(closedVars, fmt.Sprintf("%q: col%d.closed", "result", i))
			}
		case *types.Slice:
			if ch, ok := u.Elem().Underlying().(*types.Chan); ok {
				_ = ch
				drains = append(drains, fmt.Sprintf("cols%d := make([]*zzCollector, len(%s)); for i, c := range %s { cols%d[i] = &zzCollector{}; zzDrain(c, cols%d[i], &wg, func(v float64) float64 { return v }) }", i, rn, rn, i, i))
				envVars = append(envVars, fmt.Sprintf("%q: zzCols(cols%d)", "result", i))
				outDoc = append(outDoc, fmt.Sprintf("%q: zzCols(cols%d)", "result", i))
				continue
			}
			if g.e.safeSort(u.Elem()) == SReal || strings.HasPrefix(string(g.e.safeSort(u.Elem())), "U_") {
				envVars = append(envVars, fmt.Sprintf("%q: []float64(%s)", key, rn))
				if nres == 1 {
					envVars = append(envVars, fmt.Sprintf("%q: []float64(%s)", "result", rn))
				}
				outDoc = append(outDoc, fmt.Sprintf("%q: %s", key, rn))
				continue
			}
			return "", "result slice of " + u.Elem().String()
		case *types.Pointer:
			if n, ok := u.Elem().(*types.Named); ok && n.Obj().Name() == "Report" {
				drains = append(drains, fmt.Sprintf("rep%d := zzDrainReport(%s, &wg)", i, rn))
				envVars = append(envVars, fmt.Sprintf("%q: reflect.ValueOf(rep%d)", "result", i))
				outDoc = append(outDoc, fmt.Sprintf("%q: rep%d", "report", i))
				g.needReport = true
				continue
			}
			return "", "result of type " + rt.String()
		case *types.Basic:
			envVars = append(envVars, fmt.Sprintf("%q: zzScalar(%s)", key, rn))
			if nres == 1 {
				envVars = append(envVars, fmt.Sprintf("%q: zzScalar(%s)", "result", rn))
			}
			outDoc = append(outDoc, fmt.Sprintf("%q: %s", key, rn))
		default:
			return "", "result of type " + rt.String()
		}
	}
	if g.fail != "" {
		return "", g.fail
	}
	// clauses
	type jsClause struct {
		Kind  string  `json:"kind"`
		Label string  `json:"label"`
		Where string  `json:"where"`
		Text  string  `json:"text"`
		Expr  *jsExpr `json:"expr"`
	}
	var cls []jsClause
	for _, kind := range []string{"requires", "ensures", "offers", "guarantees"} {
		for j, cl := range c.byKind(kind, "") {
			name := fmt.Sprintf("%s/%s#%d", fi.Key, kind, j)
			if cl.Label != "" {
				name = fi.Key + "/" + kind + "/" + cl.Label
			}
			cls = append(cls, jsClause{Kind: kind, Label: name, Where: cl.Where, Text: cl.Text, Expr: e.toJS(cl.Expr, nil, 0)})
		}
	}
	cj, _ := json.Marshal(cls)
	// package-level constants used in specs (Hold/Buy/Sell)
	consts := ""
	if strings.Contains(string(cj), `"Buy"`) || strings.Contains(string(cj), `"Sell"`) || strings.Contains(string(cj), `"Hold"`) {
		consts = `"Buy": 1.0, "Sell": -1.0, "Hold": 0.0,`
	}
	g.imports["encoding/json"] = ""
	for _, p := range []string{"fmt", "math", "os", "reflect", "runtime", "strconv", "sync", "sync/atomic", "testing", "time", "unsafe"} {
		g.imports[p] = ""
	}
	var sb strings.Builder
	fmt.Fprintf(&sb, "package %s\n\nimport (\n", fi.Pkg.Name)
	var ips []string
	for p := range g.imports {
		ips = append(ips, p)
	}
	if g.needReport && !inHelper {
		if _, ok := g.imports[modPath+"/helper"]; !ok {
			ips = append(ips, modPath+"/helper")
			g.imports[modPath+"/helper"] = "helper"
		}
	}
	if g.needStub {
		for _, p := range []string{modPath + "/asset", modPath + "/helper", modPath + "/strategy"} {
			if p != g.pkgPath {
				if _, ok := g.imports[p]; !ok {
					ips = append(ips, p)
					g.imports[p] = filepath.Base(p)
				}
			}
		}
	}
	sort.Strings(ips)
	for _, p := range ips {
		if p == g.pkgPath {
			continue
		}
		if a := importAlias(p); a != "" {
			fmt.Fprintf(&sb, "\t%s %q\n", a, p)
		} else {
			fmt.Fprintf(&sb, "\t%q\n", p)
		}
	}
	sb.WriteString(")\n\nvar _ = unsafe.Pointer(nil)\nvar _ = strconv.Itoa\nvar _ = math.Abs\nvar _ time.Time\n")
	sb.WriteString(harnessInterp)
	// helpers depending on package qualifiers
	aq := "zz_asset."
	if g.pkgPath == modPath+"/asset" {
		aq = ""
	}
	_, usesAsset := g.imports[modPath+"/asset"]
	if usesAsset || g.pkgPath == modPath+"/asset" {
		fmt.Fprintf(&sb, `
func zzSnapshots(n, pattern, seed int) []*%[1]sSnapshot {
	cl := zzSeries(n, 4, seed)
	hi := zzSeries(n, 1, seed+1)
	lo := zzSeries(n, 1, seed+2)
	op := zzSeries(n, 1, seed+3)
	vo := zzSeries(n, 1, seed+4)
	out := make([]*%[1]sSnapshot, n)
	for i := range out {
		c := cl[i]
		if pattern == 2 {
			c = 50
		}
		h, l := c+hi[i], c-lo[i]
		o := l + (h-l)*op[i]/4
		v := 1000 * vo[i]
		if pattern == 0 {
			v = 1000 + 100*float64(i%%3)
		}
		out[i] = &%[1]sSnapshot{Date: time.Date(2020, 1, 1+i, 0, 0, 0, 0, time.UTC), Open: o, High: h, Low: l, Close: c, Volume: v}
	}
	return out
}
func zzRefl(s []*%[1]sSnapshot) []reflect.Value {
	out := make([]reflect.Value, len(s))
	for i, x := range s {
		out[i] = reflect.ValueOf(x)
	}
	return out
}
func zzSnapDoc(s []*%[1]sSnapshot) [][]float64 {
	out := make([][]float64, len(s))
	for i, x := range s {
		out[i] = []float64{x.Open, x.High, x.Low, x.Close, x.Volume}
	}
	return out
}
`, aq)
	}
	if g.needStub {
		sq, hq2 := "zz_strategy.", "zz_helper."
		if g.pkgPath == modPath+"/strategy" {
			sq = ""
		}
		if inHelper {
			hq2 = ""
		}
		fmt.Fprintf(&sb, `
// scripted stand-in for an arbitrary wrapped strategy: w Holds, then a pseudo-random action word
type zzStub struct{ w, seed int }

func (s *zzStub) Name() string { return "stub" }
func (s *zzStub) Compute(c <-chan *%[1]sSnapshot) <-chan %[2]sAction {
	out := make(chan %[2]sAction)
	go func() {
		defer close(out)
		i := 0
		for range c {
			a := %[2]sHold
			if i >= s.w {
				a = %[2]sAction(int(zzSeries(i+1, 1, s.seed+s.w)[i])%%3 - 1)
			}
			out <- a
			i++
		}
		for ; i < s.w; i++ {
			out <- %[2]sHold
		}
	}()
	return out
}
func (s *zzStub) Report(c <-chan *%[1]sSnapshot) *%[3]sReport { return nil }
`, aq, sq, hq2)
	}
	_ = hq
	if g.needReport {
		hq3 := "zz_helper."
		if inHelper {
			hq3 = ""
		}
		fmt.Fprintf(&sb, `
// drain the date axis and every column's value channel (read through reflection) concurrently
func zzDrainReport(r *%[1]sReport, wg *sync.WaitGroup) *zzReport {
	out := &zzReport{}
	var mu sync.Mutex
	wg.Add(1)
	go func() {
		defer wg.Done()
		for d := range r.Date {
			mu.Lock()
			out.Date = append(out.Date, float64(d.Unix()))
			mu.Unlock()
		}
	}()
	for _, col := range r.Columns {
		zc := &zzCol{Name: col.Name()}
		out.Columns = append(out.Columns, zc)
		f := reflect.ValueOf(col).Elem().FieldByName("values")
		f = reflect.NewAt(f.Type(), unsafe.Pointer(f.UnsafeAddr())).Elem()
		wg.Add(1)
		go func(f reflect.Value, zc *zzCol) {
			defer wg.Done()
			for {
				v, ok := f.Recv()
				if !ok {
					return
				}
				mu.Lock()
				if v.Kind() == reflect.String {
					zc.Strs = append(zc.Strs, v.String())
					zc.Vals = append(zc.Vals, float64(len(v.String())))
				} else {
					zc.Vals = append(zc.Vals, v.Float())
				}
				mu.Unlock()
			}
		}(f, zc)
	}
	return out
}
`, hq3)
	}
	fmt.Fprintf(&sb, `
func zzFeedT[T any](vals []T, taken *int64) <-chan T {
	c := make(chan T)
	go func() {
		for _, v := range vals {
			c <- v
			atomic.AddInt64(taken, 1)
		}
		close(c)
	}()
	return c
}
func zzAct(v float64) float64 { return float64(int(math.Abs(v))%%3 - 1) }
func zzScalar(v interface{}) interface{} {
	rv := reflect.ValueOf(v)
	switch rv.Kind() {
	case reflect.Bool:
		return rv.Bool()
	case reflect.Int, reflect.Int64:
		return float64(rv.Int())
	case reflect.Float64:
		return rv.Float()
	}
	return v
}
func zzCols(cs []*zzCollector) [][]float64 {
	out := make([][]float64, len(cs))
	for i, c := range cs {
		out[i] = c.vals
	}
	return out
}

const zzClauses = %s

const zzStreamDefsJSON = %s

func TestZZReplay(t *testing.T) {
	var clauses []struct {
		Kind, Label, Where, Text string
		Expr                     *zzExpr
	}
	if err := json.Unmarshal([]byte(zzClauses), &clauses); err != nil {
		t.Fatal(err)
	}
	zzSeed, _ := strconv.Atoi(os.Getenv("VERIF_SEED"))
	type failure struct {
		Kind    string                 `+"`json:\"kind\"`"+`
		Clause  string                 `+"`json:\"clause\"`"+`
		Label   string                 `+"`json:\"label\"`"+`
		Text    string                 `+"`json:\"text\"`"+`
		Config  map[string]float64     `+"`json:\"config\"`"+`
		Inputs  map[string]interface{} `+"`json:\"inputs\"`"+`
		Outputs map[string]interface{} `+"`json:\"outputs\"`"+`
		Witness []string               `+"`json:\"witness\"`"+`
	}
	var failures []failure
	skips := map[string]string{}
	evaluated, inadmissible := 0, 0
	distinct := map[string]bool{}
	gridDoc := %s
	vals := []int{0, 1, 2, 3, 5, 4, 7}
	lens := []int{0, 1, 2, 3, 4, 5, 6, 8, 11, 17, 26}
	ncases := %d
	rnd := uint32(zzSeed*2654435761 + 97)
	next := func(m int) int { rnd = rnd*1664525 + 1013904223; return int((rnd >> 10) %% uint32(m)) }
	for ci := 0; ci < ncases && len(failures) < 3; ci++ {
		zzG := make([]int, %d+1)
		for j := range zzG {
			if ci < 400 {
				zzG[j] = vals[next(5)]
			} else {
				zzG[j] = vals[next(len(vals))]
			}
		}
		zzN := lens[next(len(lens))]
		zzPattern := next(5)
		_ = zzPattern
		cfg := map[string]float64{}
		for j, d := range gridDoc {
			cfg[d] = float64(zzG[j])
		}
		func() {
			defer func() {
				if r := recover(); r != nil {
					failures = append(failures, failure{Kind: "panic", Text: fmt.Sprint(r), Config: cfg})
				}
			}()
			%s
			inputs := map[string]interface{}{%s}
			// requires are checked before the call on the inputs alone
			envPre := &zzEnv{vars: map[string]interface{}{%s %s}, consumed: map[string]float64{}, closed: map[string]bool{}}
			for k := range envPre.vars {
				_ = k
			}
			%s
			for _, cl := range clauses {
				if cl.Kind != "requires" {
					continue
				}
				if r := zzClauseReq(cl.Expr, envPre); r == "fail" {
					inadmissible++
					return
				}
			}
			zzBase := runtime.NumGoroutine()
			%s %s(%s)
			var wg sync.WaitGroup
			%s
			finished := zzWait(&wg, 2*time.Second)
			zzSettle([]*int64{%s}, []int{%s})
			env := &zzEnv{vars: map[string]interface{}{%s %s}, consumed: map[string]float64{%s}, closed: map[string]bool{%s}}
			outputs := map[string]interface{}{%s}
			evaluated++
			distinct[fmt.Sprint(cfg, zzN, zzPattern)] = true
			if !finished {
				failures = append(failures, failure{Kind: "hang", Text: "outputs not closed within 2s", Config: cfg, Inputs: inputs, Outputs: outputs})
				return
			}
			if zzLeak := zzGoroutinesSettle(zzBase); zzLeak > 0 {
				failures = append(failures, failure{Kind: "leak", Text: fmt.Sprintf("%%d goroutine(s) still running 300ms after every output was drained to its close", zzLeak), Config: cfg, Inputs: inputs, Outputs: outputs})
				return
			}
			for _, cl := range clauses {
				if cl.Kind == "requires" {
					continue
				}
				r := zzClause(cl.Expr, env)
				if r == "fail" {
					failures = append(failures, failure{Kind: cl.Kind, Clause: cl.Where, Label: cl.Label, Text: cl.Text, Config: cfg, Inputs: inputs, Outputs: outputs, Witness: zzWitness})
					return
				}
				if strings.HasPrefix(r, "skip") {
					skips[cl.Where] = r
				}
			}
			//ZZREL//
		}()
	}
	out := map[string]interface{}{"evaluated": evaluated, "distinct_nontrivial": len(distinct), "skipped_by_requires": inadmissible, "clauses_not_executable": skips, "failures": failures}
	b, _ := json.Marshal(out)
	if p := os.Getenv("VERIF_REPLAY_OUT"); p != "" {
		os.WriteFile(p, b, 0o644)
	} else {
		fmt.Println(string(b))
	}
}

func zzClauseReq(x *zzExpr, env *zzEnv) string {
	// consumed(c) == 0 style preconditions hold by construction of the harness
	env.consumed = map[string]float64{}
	for k := range env.vars {
		env.consumed[k] = 0
	}
	return zzClause(x, env)
}
`, "`"+strings.ReplaceAll(string(cj), "`", "'")+"`", "`"+strings.ReplaceAll(e.streamDefsJSON(), "`", "'")+"`", goStrSlice(g.gridDoc), ncases, g.nGrid,
		strings.Join(pre, "\n\t\t\t"), strings.Join(inputsDoc, ", "), consts, strings.Join(filterEnvPre(envVars), ", "),
		"", resAssign(resNames), callee, strings.Join(callArgs, ", "),
		strings.Join(drains, "\n\t\t\t"), strings.Join(settleT, ", "), strings.Join(settleW, ", "),
		consts, strings.Join(envVars, ", "), strings.Join(consumedVars, ", "), strings.Join(closedVars, ", "), strings.Join(outDoc, ", "))
	src := sb.String()
	src = strings.Replace(src, "//ZZREL//", e.relReplayBlock(fi, g), 1)
	if !strings.Contains(src, "strings.") {
		return src, ""
	}
	src = strings.Replace(src, "import (\n", "import (\n\t\"strings\"\n", 1)
	return src, ""
}

func resAssign(r []string) string {
	if len(r) == 0 {
		return ""
	}
	return strings.Join(r, ", ") + " :="
}

// environment entries available before the call (no results)
func filterEnvPre(vars []string) []string {
	var out []string
	for _, v := range vars {
		if strings.Contains(v, "col") || strings.Contains(v, "ValueOf(rep") || strings.Contains(v, ": zzScalar(r") || strings.Contains(v, "[]float64(r") || strings.Contains(v, "zzCols(") {
			continue
		}
		out = append(out, v)
	}
	return out
}

func goStrSlice(s []string) string {
	var qs []string
	for _, x := range s {
		qs = append(qs, fmt.Sprintf("%q", x))
	}
	return "[]string{" + strings.Join(qs, ", ") + "}"
}

func (e *Engine) safeSort(t types.Type) (s Sort) {
	defer func() {
		if r := recover(); r != nil {
			s = "?"
		}
	}()
	return e.sortOf(t)
}

// runReplay generates and runs the harness for one function
func (e *Engine) runReplay(fi *FuncInfo, ncases int, seed int) *ReplayResult {
	res := &ReplayResult{Function: fi.Key}
	t0 := time.Now()
	defer func() { res.Seconds = time.Since(t0).Seconds() }()
	src, why := e.genHarness(fi, ncases)
	if why != "" {
		res.Reason = why
		return res
	}
	res.Supported = true
	base := os.Getenv("XDG_CACHE_HOME")
	if base == "" {
		base = filepath.Join(os.Getenv("HOME"), ".cache")
	}
	dir := filepath.Join(base, "govc", fmt.Sprintf("replay%d_%s", os.Getpid(), sanitize(fi.Key)))
	os.MkdirAll(dir, 0o755)
	defer os.RemoveAll(dir)
	pkgDir := filepath.Join(e.w.RepoDir, shortPkg(fi.Pkg.PkgPath))
	testFile := filepath.Join(dir, "zz_replay_test.go")
	os.WriteFile(testFile, []byte(src), 0o644)
	if keep := os.Getenv("GOVC_KEEP_HARNESS"); keep != "" {
		os.WriteFile(filepath.Join(keep, sanitize(fi.Key)+"_test.go"), []byte(src), 0o644)
	}
	ov := map[string]map[string]string{"Replace": {filepath.Join(pkgDir, "zz_replay_verif_test.go"): testFile}}
	ovb, _ := json.Marshal(ov)
	ovFile := filepath.Join(dir, "overlay.json")
	os.WriteFile(ovFile, ovb, 0o644)
	outFile := filepath.Join(dir, "out.json")
	cmd := exec.Command("go", "test", "-overlay", ovFile, "-vet=off", "-count=1", "-timeout", "120s", "-run", "^TestZZReplay$", ".")
	cmd.Dir = pkgDir
	cmd.Env = append(os.Environ(), "GOFLAGS=-mod=mod", "GOPROXY=off", "GOSUMDB=off", "GOTOOLCHAIN=local", "VERIF_REPLAY_OUT="+outFile, fmt.Sprintf("VERIF_SEED=%d", seed))
	out, err := cmd.CombinedOutput()
	data, rerr := os.ReadFile(outFile)
	if rerr != nil {
		res.Error = "harness did not produce a result: " + truncate(string(out), 1500)
		if err != nil && strings.Contains(string(out), "panic:") {
			res.Failures = append(res.Failures, ReplayFailure{Kind: "crash", Text: truncate(string(out), 1500)})
		}
		return res
	}
	json.Unmarshal(data, res)
	res.Function = fi.Key
	res.Supported = true
	return res
}

// runOverlayTest injects a test file into a package of /repo via -overlay and runs it; returns output and whether it failed
func (e *Engine) runOverlayTest(pkg, fileName, src, run string) (string, bool) {
	base := os.Getenv("XDG_CACHE_HOME")
	if base == "" {
		base = filepath.Join(os.Getenv("HOME"), ".cache")
	}
	dir := filepath.Join(base, "govc", fmt.Sprintf("ov%d_%s", os.Getpid(), sanitize(fileName)))
	os.MkdirAll(dir, 0o755)
	defer os.RemoveAll(dir)
	pkgDir := filepath.Join(e.w.RepoDir, pkg)
	testFile := filepath.Join(dir, fileName)
	os.WriteFile(testFile, []byte(src), 0o644)
	ov := map[string]map[string]string{"Replace": {filepath.Join(pkgDir, fileName): testFile}}
	ovb, _ := json.Marshal(ov)
	ovFile := filepath.Join(dir, "overlay.json")
	os.WriteFile(ovFile, ovb, 0o644)
	cmd := exec.Command("go", "test", "-overlay", ovFile, "-vet=off", "-count=1", "-timeout", "60s", "-run", run, ".")
	cmd.Dir = pkgDir
	cmd.Env = append(os.Environ(), "GOFLAGS=-mod=mod", "GOPROXY=off", "GOSUMDB=off", "GOTOOLCHAIN=local")
	out, err := cmd.CombinedOutput()
	return string(out), err != nil
}

// like runOverlayTest, but the test writes its result to $VERIF_REPLAY_OUT, which is returned
func (e *Engine) runOverlayTestOut(pkg, fileName, src, run string, env []string) (string, string) {
	base := os.Getenv("XDG_CACHE_HOME")
	if base == "" {
		base = filepath.Join(os.Getenv("HOME"), ".cache")
	}
	dir := filepath.Join(base, "govc", fmt.Sprintf("ovo%d_%s", os.Getpid(), sanitize(fileName)))
	os.MkdirAll(dir, 0o755)
	defer os.RemoveAll(dir)
	pkgDir := filepath.Join(e.w.RepoDir, pkg)
	testFile := filepath.Join(dir, fileName)
	os.WriteFile(testFile, []byte(src), 0o644)
	ov := map[string]map[string]string{"Replace": {filepath.Join(pkgDir, fileName): testFile}}
	ovb, _ := json.Marshal(ov)
	ovFile := filepath.Join(dir, "overlay.json")
	os.WriteFile(ovFile, ovb, 0o644)
	outFile := filepath.Join(dir, "out.json")
	cmd := exec.Command("go", "test", "-overlay", ovFile, "-vet=off", "-count=1", "-timeout", "600s", "-run", run, ".")
	cmd.Dir = pkgDir
	cmd.Env = append(append(os.Environ(), "GOFLAGS=-mod=mod", "GOPROXY=off", "GOSUMDB=off", "GOTOOLCHAIN=local", "VERIF_REPLAY_OUT="+outFile), env...)
	out, _ := cmd.CombinedOutput()
	data, _ := os.ReadFile(outFile)
	return string(out), string(data)
}

// relReplayBlock: for a strategy with relational clauses, the harness runs Compute a second time on the same snapshots
// with every price (relation "price") or every volume (relation "volume") multiplied by 4 - a power of two, for which
// IEEE arithmetic is exactly scale-covariant - and compares the two action streams position by position.
func (e *Engine) relReplayBlock(fi *FuncInfo, g *rgen) string {
	labels := relLabels(fi.Contract)
	if len(labels) == 0 {
		return ""
	}
	sig := fi.Obj.Type().(*types.Signature)
	if sig.Recv() == nil || sig.Params().Len() != 1 || sig.Results().Len() != 1 {
		return ""
	}
	pch, ok := sig.Params().At(0).Type().Underlying().(*types.Chan)
	if !ok || !isSnapshotPtr(pch.Elem()) {
		return ""
	}
	rch, ok := sig.Results().At(0).Type().Underlying().(*types.Chan)
	if !ok {
		return ""
	}
	aq := "zz_asset."
	if g.pkgPath == modPath+"/asset" {
		aq = ""
	}
	name := sig.Params().At(0).Name()
	var ls []string
	for _, l := range labels {
		if l == "price" || l == "volume" {
			ls = append(ls, fmt.Sprintf("%q", l))
		}
	}
	if len(ls) == 0 {
		return ""
	}
	return fmt.Sprintf(`for _, zzRel := range []string{%s} {
				in2 := make([]*%sSnapshot, len(in_%s))
				for i, s := range in_%s {
					c := *s
					if zzRel == "price" {
						c.Open, c.High, c.Low, c.Close = 4*c.Open, 4*c.High, 4*c.Low, 4*c.Close
					} else {
						c.Volume = 4 * c.Volume
					}
					in2[i] = &c
				}
				var taken2 int64
				r2 := recv.%s(zzFeedT[*%sSnapshot](in2, &taken2))
				var wg2 sync.WaitGroup
				col2 := &zzCollector{}
				zzDrain(r2, col2, &wg2, func(v %s) float64 { return float64(v) })
				if !zzWait(&wg2, 2*time.Second) {
					continue
				}
				same := len(col2.vals) == len(col0.vals)
				for i := 0; same && i < len(col0.vals); i++ {
					if col2.vals[i] != col0.vals[i] {
						same = false
					}
				}
				if !same {
					failures = append(failures, failure{Kind: "rel", Label: %q + zzRel, Text: "the recommendations change when every " + zzRel + " is multiplied by 4", Config: cfg, Inputs: inputs, Outputs: map[string]interface{}{"result": col0.vals, "result_scaled_inputs": col2.vals}})
					return
				}
			}`, strings.Join(ls, ", "), aq, name, name, fi.Decl.Name.Name, aq, g.typeStr(rch.Elem()), fi.Key+"/rel:")
}
