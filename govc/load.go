package main

import (
	"fmt"
	"go/ast"
	"go/token"
	"go/types"
	"os"
	"path/filepath"
	"sort"
	"strings"

	"golang.org/x/tools/go/packages"
)

const modPath = "github.com/cinar/indicator/v2"

type FuncInfo struct {
	Key      string // "helper.Skip", "helper.Ring.Put"
	Pkg      *packages.Package
	Decl     *ast.FuncDecl
	Obj      *types.Func
	Contract *Contract
	Loops    []ast.Stmt     // ForStmt / RangeStmt in source order
	Lits     []*ast.FuncLit // function literals in source order
}

type World struct {
	Fset           *token.FileSet
	Pkgs           map[string]*packages.Package // by short path ("helper", "strategy/trend")
	Funcs          map[string]*FuncInfo         // by key
	ByObj          map[*types.Func]*FuncInfo
	Contracts      map[string]*Contract // by key "helper.Skip"
	RepoDir        string
	IfaceContracts map[string]*Contract // "trend.Ma.Compute"
	Lemmas         map[string]*Contract
}

func shortPkg(path string) string {
	if path == modPath {
		return "."
	}
	return strings.TrimPrefix(path, modPath+"/")
}

// pkgQual: last element of path is used in keys ("strategy/trend" -> "strategy/trend")
func loadWorld(repo string, contractDir string) (*World, error) {
	cfg := &packages.Config{
		Mode: packages.NeedName | packages.NeedTypes | packages.NeedSyntax | packages.NeedTypesInfo |
			packages.NeedImports | packages.NeedDeps | packages.NeedFiles | packages.NeedCompiledGoFiles,
		Dir:        repo,
		BuildFlags: []string{"-tags=verif"},
		Env:        append(os.Environ(), "GOFLAGS=-mod=mod", "GOPROXY=off", "GOSUMDB=off", "GOTOOLCHAIN=local"),
	}
	pkgs, err := packages.Load(cfg, "./...")
	if err != nil {
		return nil, err
	}
	w := &World{Pkgs: map[string]*packages.Package{}, Funcs: map[string]*FuncInfo{}, ByObj: map[*types.Func]*FuncInfo{},
		Contracts: map[string]*Contract{}, RepoDir: repo, IfaceContracts: map[string]*Contract{}, Lemmas: map[string]*Contract{}}
	for _, p := range pkgs {
		if len(p.Errors) > 0 {
			return nil, fmt.Errorf("package %s: %v", p.PkgPath, p.Errors[0])
		}
		w.Fset = p.Fset
		sp := shortPkg(p.PkgPath)
		w.Pkgs[sp] = p
		if sp == "asset" {
			if o := p.Types.Scope().Lookup("Snapshot"); o != nil {
				snapshotType = o.Type()
			}
		}
		for _, f := range p.Syntax {
			fname := p.Fset.Position(f.Pos()).Filename
			if strings.HasSuffix(fname, "_test.go") {
				continue
			}
			for _, d := range f.Decls {
				fd, ok := d.(*ast.FuncDecl)
				if !ok || fd.Body == nil {
					continue
				}
				obj, _ := p.TypesInfo.Defs[fd.Name].(*types.Func)
				if obj == nil {
					continue
				}
				key := sp + "." + fd.Name.Name
				if fd.Recv != nil && len(fd.Recv.List) > 0 {
					key = sp + "." + recvTypeName(fd.Recv.List[0].Type) + "." + fd.Name.Name
				}
				fi := &FuncInfo{Key: key, Pkg: p, Decl: fd, Obj: obj}
				ast.Inspect(fd.Body, func(n ast.Node) bool {
					switch x := n.(type) {
					case *ast.ForStmt:
						fi.Loops = append(fi.Loops, x)
					case *ast.RangeStmt:
						fi.Loops = append(fi.Loops, x)
					case *ast.FuncLit:
						fi.Lits = append(fi.Lits, x)
					}
					return true
				})
				w.Funcs[key] = fi
				w.ByObj[obj] = fi
			}
		}
	}
	// contracts: <contractDir>/<pkgpath>/zz_contracts_verif.go  (contractDir is the repo itself normally)
	var spkgs []string
	for sp := range w.Pkgs {
		spkgs = append(spkgs, sp)
	}
	sort.Strings(spkgs)
	for _, sp := range spkgs {
		path := filepath.Join(contractDir, sp, "zz_contracts_verif.go")
		if _, err := os.Stat(path); err != nil {
			continue
		}
		cs, err := readContractFile(path, sp)
		if err != nil {
			return nil, err
		}
		for _, c := range cs {
			if strings.HasPrefix(c.Key, "lemma:") {
				w.Lemmas[strings.TrimPrefix(c.Key, "lemma:")] = c
				continue
			}
			if strings.HasPrefix(c.Key, "interface ") {
				k := sp + "." + strings.TrimSpace(strings.TrimPrefix(c.Key, "interface "))
				w.IfaceContracts[k] = c
				continue
			}
			key := sp + "." + c.Key
			if _, dup := w.Contracts[key]; dup {
				return nil, fmt.Errorf("%s: duplicate contract for %s", c.Where, key)
			}
			w.Contracts[key] = c
			if fi, ok := w.Funcs[key]; ok {
				fi.Contract = c
			} else if !c.Trusted {
				return nil, fmt.Errorf("%s: contract for unknown function %s", c.Where, key)
			}
		}
	}
	return w, nil
}

func recvTypeName(e ast.Expr) string {
	switch x := e.(type) {
	case *ast.StarExpr:
		return recvTypeName(x.X)
	case *ast.IndexExpr:
		return recvTypeName(x.X)
	case *ast.IndexListExpr:
		return recvTypeName(x.X)
	case *ast.Ident:
		return x.Name
	}
	return "?"
}

// key of a *types.Func (possibly an instantiation / method on instantiated type)
func (w *World) keyOf(fn *types.Func) string {
	fn = fn.Origin()
	pkg := fn.Pkg()
	if pkg == nil {
		return fn.Name()
	}
	sp := shortPkg(pkg.Path())
	sig := fn.Type().(*types.Signature)
	if r := sig.Recv(); r != nil {
		t := r.Type()
		if p, ok := t.(*types.Pointer); ok {
			t = p.Elem()
		}
		if n, ok := t.(*types.Named); ok {
			return sp + "." + n.Obj().Name() + "." + fn.Name()
		}
		if _, ok := t.Underlying().(*types.Interface); ok {
			return sp + ".?." + fn.Name()
		}
	}
	return sp + "." + fn.Name()
}
