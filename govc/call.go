package main

import (
	"fmt"
	"go/ast"
	"go/token"
	"go/types"
	"strings"
)

func (e *Engine) evalCall(cx *ast.CallExpr, st *State) Value {
	// type conversion
	if tv, ok := e.info().Types[cx.Fun]; ok && tv.IsType() {
		return e.evalConversion(cx, tv.Type, st)
	}
	// builtins
	if id, ok := ast.Unparen(cx.Fun).(*ast.Ident); ok {
		if b, isB := e.info().ObjectOf(id).(*types.Builtin); isB {
			return e.evalBuiltin(b.Name(), cx, st)
		}
	}
	// immediately invoked function literal
	if lit, ok := ast.Unparen(cx.Fun).(*ast.FuncLit); ok {
		var args []Value
		for _, a := range cx.Args {
			args = append(args, e.eval(a, st))
		}
		return e.inlineLit(lit, args, st)
	}
	// resolve callee
	var fn *types.Func
	var recv Value
	var recvExpr ast.Expr
	fun := ast.Unparen(cx.Fun)
	if ix, ok := fun.(*ast.IndexExpr); ok {
		fun = ix.X
	}
	if ix, ok := fun.(*ast.IndexListExpr); ok {
		fun = ix.X
	}
	switch f := fun.(type) {
	case *ast.Ident:
		switch o := e.info().ObjectOf(f).(type) {
		case *types.Func:
			fn = o
		case *types.Var:
			return e.callValue(e.evalIdent(f, st), cx, st)
		}
	case *ast.SelectorExpr:
		if sel := e.info().Selections[f]; sel != nil {
			switch sel.Kind() {
			case types.MethodVal:
				fn = sel.Obj().(*types.Func)
				recvExpr = f.X
			case types.FieldVal:
				unsup("call of function-typed field at %s", e.src(cx))
			}
		} else if o, ok := e.info().ObjectOf(f.Sel).(*types.Func); ok {
			fn = o
		}
	}
	if fn == nil {
		unsup("cannot resolve callee at %s", e.src(cx))
	}
	if recvExpr != nil {
		recv = e.eval(recvExpr, st)
	}
	var args []Value
	var argExprs []ast.Expr
	if cx.Ellipsis != token.NoPos {
		unsup("variadic spread call at %s", e.src(cx))
	}
	sig := fn.Type().(*types.Signature)
	if sig.Variadic() {
		// pack trailing args into a slice
		np := sig.Params().Len()
		for i := 0; i < np-1; i++ {
			args = append(args, e.eval(cx.Args[i], st))
			argExprs = append(argExprs, cx.Args[i])
		}
		el := sig.Params().At(np - 1).Type().(*types.Slice).Elem()
		if _, isIface := el.Underlying().(*types.Interface); isIface {
			// ...any: arguments are evaluated for their effects only
			e.lastAnyArgs = nil
			for i := np - 1; i < len(cx.Args); i++ {
				e.lastAnyArgs = append(e.lastAnyArgs, e.eval(cx.Args[i], st))
			}
			args = append(args, VSlice{Arr: e.fresh("anyargs", arraySort(SInt, SRef)), Len: mkInt(int64(len(cx.Args) - np + 1)), Elem: el})
			return e.callFunc(fn, recv, args, cx, st)
		}
		es := e.elemSort(el)
		arr := e.fresh("varargs.arr", arraySort(SInt, es))
		n := 0
		for i := np - 1; i < len(cx.Args); i++ {
			v := e.eval(cx.Args[i], st)
			var t *Term
			if s, ok := v.(VStream); ok {
				t = s.ID
			} else {
				t = term(v)
			}
			arr = mkStore(arr, mkInt(int64(n)), t)
			n++
		}
		args = append(args, VSlice{Arr: arr, Len: mkInt(int64(n)), Elem: el})
		argExprs = append(argExprs, nil)
	} else {
		for _, a := range cx.Args {
			if lit, ok := ast.Unparen(a).(*ast.FuncLit); ok {
				args = append(args, VClosure{Lit: lit})
			} else {
				args = append(args, e.eval(a, st))
			}
			argExprs = append(argExprs, a)
		}
	}
	return e.callFunc(fn, recv, args, cx, st)
}

func (e *Engine) evalConversion(cx *ast.CallExpr, to types.Type, st *State) Value {
	v := e.eval(cx.Args[0], st)
	vt, ok := v.(VTerm)
	if !ok {
		if vs, ok := v.(VStream); ok {
			return VStream{ID: vs.ID, Elem: vs.Elem}
		}
		unsup("conversion of %T at %s", v, e.src(cx))
	}
	ts := e.sortOf(to)
	switch {
	case vt.T.Sort == ts:
		return VTerm{T: vt.T, Typ: to}
	case vt.T.Sort == SInt && ts == SReal:
		return VTerm{T: toReal(vt.T), Typ: to}
	case vt.T.Sort == SReal && ts == SInt:
		// truncation toward zero
		e.notes["float-to-int truncation modelled as to_int toward zero"] = true
		fl := &Term{Op: "to_int", Args: []*Term{vt.T}, Sort: SInt}
		neg := &Term{Op: "-", Args: []*Term{&Term{Op: "to_int", Args: []*Term{mkNeg(vt.T)}, Sort: SInt}}, Sort: SInt}
		return VTerm{T: mkIte(mkCmp(">=", vt.T, toReal(mkInt(0))), fl, neg), Typ: to}
	}
	unsup("conversion %s -> %s at %s", vt.T.Sort, ts, e.src(cx))
	return nil
}

func (e *Engine) evalBuiltin(name string, cx *ast.CallExpr, st *State) Value {
	intT := types.Typ[types.Int]
	switch name {
	case "len":
		v := e.eval(cx.Args[0], st)
		switch b := v.(type) {
		case VMap:
			c := mkApp("mapcard_"+sortTag(b.Has.Sort.key()), SInt, b.Has)
			st.assume(mkCmp(">=", c, mkInt(0)))
			return VTerm{T: c, Typ: intT}
		case VSlice:
			return VTerm{T: b.Len, Typ: intT}
		case VStream:
			unsup("len(chan) at %s", e.src(cx))
		}
		unsup("len of %T at %s", v, e.src(cx))
	case "cap":
		v := e.eval(cx.Args[0], st)
		if s, ok := v.(VStream); ok {
			c := mkApp("chancap", SInt, s.ID)
			st.assume(mkCmp(">=", c, mkInt(0)))
			return VTerm{T: c, Typ: intT}
		}
		unsup("cap of %T", v)
	case "make":
		t := e.typeOf(cx.Args[0])
		switch u := t.Underlying().(type) {
		case *types.Chan:
			if len(cx.Args) > 1 {
				sz := term(e.eval(cx.Args[1], st))
				e.assert(st, mkCmp(">=", sz, mkInt(0)), "make-chan-size", e.src(cx), nil)
			}
			var id *Term
			if e.arrayMode {
				// fresh id = the next unused stream number: distinct from every stream that exists
				id = st.mem["@nextid"]
				st.mem["@nextid"] = mkArith("+", id, mkInt(1))
			} else {
				id = e.fresh("ch", SInt)
			}
			st.assume(mkCmp(">=", e.slen(id), mkInt(0)))
			e.idTerms[id.String()] = id
			e.madeHere[id.String()] = true
			e.setClosed(st, id, tFalse)
			e.setSent(st, id, mkInt(0))
			e.setConsumed(st, id, mkInt(0))
			return VStream{ID: id, Elem: u.Elem()}
		case *types.Map:
			ks, vs, isSl, es := e.mapSorts(u)
			m := VMap{Has: &Term{Op: "constarr", Args: []*Term{tFalse}, Sort: arraySortK(ks, SBool)}, Key: u.Key(), Elem: u.Elem()}
			if isSl {
				m.Val = e.fresh("map.val", arraySortK(ks, vs))
				m.Len = &Term{Op: "constarr", Args: []*Term{mkInt(0)}, Sort: arraySortK(ks, SInt)}
				_ = es
			} else {
				m.Val = e.fresh("map.val", arraySortK(ks, vs))
			}
			return m
		case *types.Slice:
			n := term(e.eval(cx.Args[1], st))
			e.assert(st, mkCmp(">=", n, mkInt(0)), "make-slice-size", e.src(cx), nil)
			if sv := structValueElem(u.Elem()); sv != nil {
				return VSlice{Len: n, Elem: u.Elem(), Fields: e.structFields(sv, func(fn string, fs Sort) *Term {
					var z *Term
					switch fs {
					case SInt:
						z = mkInt(0)
					case SReal:
						z = toReal(mkInt(0))
					case SBool:
						z = tFalse
					default:
						z = mkConst("zero_"+sortTag(fs), fs)
					}
					return &Term{Op: "constarr", Args: []*Term{z}, Sort: arraySort(SInt, fs)}
				})}
			}
			es := e.elemSort(u.Elem())
			var zero *Term
			if isChan(u.Elem()) {
				zero = mkConst("nilchan", SInt)
			} else {
				zero = term(e.zeroValue(u.Elem()))
			}
			arr := &Term{Op: "constarr", Args: []*Term{zero}, Sort: arraySort(SInt, es)}
			return VSlice{Arr: arr, Len: n, Elem: u.Elem()}
		}
		unsup("make(%s) at %s", t, e.src(cx))
	case "new":
		t := e.typeOf(cx.Args[0])
		ref := e.fresh("new_"+typeShort(t), SRef)
		e.localRefs[ref.String()] = true
		e.dynType[ref.String()] = types.NewPointer(t)
		e.noteAlloc(st, ref)
		if dn := dynTypeName(t); dn != "" {
			st.assume(mkEq(mkApp("dyntype", SInt, ref), typeTag(dn)))
		}
		return VTerm{T: ref, Typ: types.NewPointer(t)}
	case "delete":
		m, ok := e.eval(cx.Args[0], st).(VMap)
		if !ok {
			unsup("delete on non-map")
		}
		k := term(e.eval(cx.Args[1], st))
		n := m
		n.Has = mkStoreK(m.Has, k, tFalse)
		e.assignTo(cx.Args[0], n, st)
		return VTuple{}
	case "close":
		s, ok := e.eval(cx.Args[0], st).(VStream)
		if !ok {
			unsup("close of non-stream")
		}
		e.closeStream(st, s, e.src(cx))
		return VTuple{}
	case "append":
		v := e.eval(cx.Args[0], st)
		sl, ok := v.(VSlice)
		if !ok {
			unsup("append to %T", v)
		}
		if cx.Ellipsis != token.NoPos {
			// append(a, b...): a fresh slice holding a followed by b
			if len(cx.Args) != 2 {
				unsup("append with spread at %s", e.src(cx))
			}
			bv, ok := e.eval(cx.Args[1], st).(VSlice)
			if !ok || sl.Arr == nil || bv.Arr == nil {
				unsup("append with spread of %T at %s", bv, e.src(cx))
			}
			r := e.fresh("appended", sl.Arr.Sort)
			e.nfresh++
			i := mkVar(fmt.Sprintf("i$%d", e.nfresh), SInt)
			st.assume(mkForall([]*Term{i}, mkImplies(mkAnd(mkCmp("<=", mkInt(0), i), mkCmp("<", i, sl.Len)), mkEq(mkSelect(r, i), mkSelect(sl.Arr, i))), [][]*Term{{mkSelect(r, i)}}))
			e.nfresh++
			j := mkVar(fmt.Sprintf("j$%d", e.nfresh), SInt)
			st.assume(mkForall([]*Term{j}, mkImplies(mkAnd(mkCmp("<=", mkInt(0), j), mkCmp("<", j, bv.Len)), mkEq(mkSelect(r, mkArith("+", sl.Len, j)), mkSelect(bv.Arr, j))), [][]*Term{{mkSelect(bv.Arr, j)}}))
			return VSlice{Arr: r, Len: mkArith("+", sl.Len, bv.Len), Elem: sl.Elem}
		}
		for _, a := range cx.Args[1:] {
			av := e.eval(a, st)
			var t *Term
			if s, ok := av.(VStream); ok {
				t = s.ID
			} else {
				t = term(av)
			}
			sl = VSlice{Arr: mkStore(sl.Arr, sl.Len, t), Len: mkArith("+", sl.Len, mkInt(1)), Elem: sl.Elem}
		}
		return sl
	case "panic":
		e.assert(st, tFalse, "no-panic", e.src(cx), nil)
		st.assume(tFalse)
		return VTuple{}
	case "min", "max":
		a := term(e.eval(cx.Args[0], st))
		b := term(e.eval(cx.Args[1], st))
		if name == "min" {
			return VTerm{T: mkMin(a, b), Typ: e.typeOf(cx)}
		}
		return VTerm{T: mkMax(a, b), Typ: e.typeOf(cx)}
	}
	unsup("builtin %s at %s", name, e.src(cx))
	return nil
}

// call of a function-typed value (parameter or local closure)
func (e *Engine) callValue(fv Value, cx *ast.CallExpr, st *State) Value {
	var args []Value
	for _, a := range cx.Args {
		args = append(args, e.eval(a, st))
	}
	switch f := fv.(type) {
	case VFunc:
		n := e.ncalls(st, f.ID)
		for i, a := range args {
			lhs := e.fnArg(f, i, n)
			st.assume(mkEq(term(lhs), term(a)))
		}
		st.mem["ncalls:"+f.ID.String()] = mkArith("+", n, mkInt(1))
		if f.Sig.Results().Len() == 0 {
			return VTuple{}
		}
		if f.Sig.Results().Len() > 1 {
			unsup("multi-result function value")
		}
		return e.fnRet(f, n)
	case VClosure:
		return e.inlineLit(f.Lit, args, st)
	case VNamedFunc:
		return e.callFunc(f.Fn, nil, args, cx, st)
	}
	unsup("call of %T at %s", fv, e.src(cx))
	return nil
}

// inline a function literal: execute the body in st, merge the outcomes
func (e *Engine) inlineLit(lit *ast.FuncLit, args []Value, st *State) Value {
	sig := e.typeOf(lit).(*types.Signature)
	i := 0
	for _, f := range lit.Type.Params.List {
		for _, n := range f.Names {
			if obj := e.info().Defs[n]; obj != nil {
				st.vars[obj] = e.coerce(args[i], obj.Type())
			}
			i++
		}
	}
	saved := st.defers
	st.defers = nil
	e.inLit++
	outs := e.execBlock(lit.Body.List, st)
	e.inLit--
	outs = e.runDefers(outs)
	v := e.mergeInto(st, outs, sig.Results())
	st.defers = saved
	return v
}

func (e *Engine) coerce(v Value, t types.Type) Value {
	if vt, ok := v.(VTerm); ok {
		if vt.T.Sort == SInt && e.isRealType(t) {
			return VTerm{T: toReal(vt.T), Typ: t}
		}
	}
	return v
}

// merge outcome states into dst (which was the start state object and has been mutated by the first path)
func (e *Engine) mergeInto(dst *State, outs []Out, results *types.Tuple) Value {
	var live []Out
	for _, o := range outs {
		switch o.kind {
		case fBreak, fContinue:
			unsup("break/continue escaping an inlined body")
		}
		live = append(live, o)
	}
	if len(live) == 0 {
		unsup("inlined body has no outcome")
	}
	retOf := func(o Out) Value {
		if results == nil || results.Len() == 0 {
			return VTuple{}
		}
		if o.kind != fReturn {
			unsup("inlined body falls off the end without return")
		}
		for i := range o.ret {
			if i < results.Len() {
				o.ret[i] = e.coerceNil(o.ret[i], results.At(i).Type())
			}
		}
		if results.Len() == 1 {
			return e.coerce(o.ret[0], results.At(0).Type())
		}
		return VTuple(o.ret)
	}
	if len(live) == 1 {
		o := live[0]
		if o.st != dst {
			*dst = *o.st
		}
		return retOf(o)
	}
	// common prefix of path conditions
	base := live[0].st.pc
	pl := len(base)
	for _, o := range live[1:] {
		n := 0
		for n < pl && n < len(o.st.pc) && o.st.pc[n] == base[n] {
			n++
		}
		pl = n
	}
	conds := make([]*Term, len(live))
	for i, o := range live {
		conds[i] = mkAnd(o.st.pc[pl:]...)
	}
	merged := live[len(live)-1].st.clone()
	merged.pc = append([]*Term(nil), base[:pl]...)
	merged.pc = append(merged.pc, mkOr(conds...))
	mergeTerm := func(get func(s *State) *Term) *Term {
		res := get(live[len(live)-1].st)
		for i := len(live) - 2; i >= 0; i-- {
			v := get(live[i].st)
			if v == nil || res == nil {
				return nil
			}
			res = mkIte(conds[i], v, res)
		}
		return res
	}
	// vars
	for obj := range merged.vars {
		same := true
		first := live[0].st.vars[obj]
		for _, o := range live[1:] {
			if !sameValue(first, o.st.vars[obj]) {
				same = false
			}
		}
		if same {
			merged.vars[obj] = first
			continue
		}
		ft, ok := first.(VTerm)
		if !ok {
			unsup("merge of differing non-scalar variable %s", obj.Name())
		}
		t := mergeTerm(func(s *State) *Term {
			if v, ok := s.vars[obj].(VTerm); ok {
				return v.T
			}
			return nil
		})
		if t == nil {
			unsup("merge of variable %s", obj.Name())
		}
		merged.vars[obj] = VTerm{T: t, Typ: ft.Typ}
	}
	keys := map[string]bool{}
	for _, o := range live {
		for k := range o.st.mem {
			keys[k] = true
		}
	}
	for k := range keys {
		t := mergeTerm(func(s *State) *Term {
			if v, ok := s.mem[k]; ok {
				return v
			}
			switch {
			case strings.HasPrefix(k, "closed:"):
				return nil
			case strings.HasPrefix(k, "fld:"):
				return nil
			}
			return mkInt(0)
		})
		if t == nil {
			unsup("merge of memory key %s", k)
		}
		merged.mem[k] = t
	}
	for _, o := range live {
		for k := range o.st.readSet {
			merged.readSet[k] = true
		}
		for k := range o.st.moved {
			merged.moved[k] = true
		}
		for k, v := range o.st.owned {
			merged.owned[k] = v
		}
	}
	// return value
	var ret Value
	if results != nil && results.Len() == 1 {
		rt := mergeTerm(func(s *State) *Term { return nil })
		_ = rt
		var res *Term
		for i := len(live) - 1; i >= 0; i-- {
			v := term(retOf(live[i]))
			if res == nil {
				res = v
			} else {
				res = mkIte(conds[i], v, res)
			}
		}
		ret = e.wrap(res, results.At(0).Type())
	} else if results == nil || results.Len() == 0 {
		ret = VTuple{}
	} else {
		var tup VTuple
		for j := 0; j < results.Len(); j++ {
			var res *Term
			for i := len(live) - 1; i >= 0; i-- {
				v := term(retOf(live[i]).(VTuple)[j])
				if res == nil {
					res = v
				} else {
					res = mkIte(conds[i], v, res)
				}
			}
			tup = append(tup, e.wrap(res, results.At(j).Type()))
		}
		ret = tup
	}
	*dst = *merged
	return ret
}

func sameValue(a, b Value) bool {
	switch x := a.(type) {
	case VTerm:
		y, ok := b.(VTerm)
		return ok && x.T.String() == y.T.String()
	case VStream:
		y, ok := b.(VStream)
		return ok && x.ID.String() == y.ID.String()
	case VSlice:
		y, ok := b.(VSlice)
		if !ok || x.Len.String() != y.Len.String() || (x.Fields == nil) != (y.Fields == nil) {
			return false
		}
		if x.Fields != nil {
			for k, a := range x.Fields {
				if bb, ok := y.Fields[k]; !ok || a.String() != bb.String() {
					return false
				}
			}
			return true
		}
		return x.Arr.String() == y.Arr.String()
	case VClosure:
		y, ok := b.(VClosure)
		return ok && x.Lit == y.Lit
	case VFunc:
		y, ok := b.(VFunc)
		return ok && x.ID.String() == y.ID.String()
	case nil:
		return b == nil
	}
	return false
}

func (e *Engine) runDefers(outs []Out) []Out {
	var res []Out
	for _, o := range outs {
		if o.kind == fBreak || o.kind == fContinue {
			res = append(res, o)
			continue
		}
		st := o.st
		ds := st.defers
		st.defers = nil
		cur := []Out{o}
		for i := len(ds) - 1; i >= 0; i-- {
			var next []Out
			for _, c := range cur {
				if ds[i].bulk != nil {
					e.bulkClose(c.st, *ds[i].bulk, ds[i].where)
				} else {
					e.eval(ds[i].call, c.st)
				}
				next = append(next, c)
			}
			cur = next
		}
		res = append(res, cur...)
	}
	return res
}

// close every element of a slice of channels (deferred in a loop)
func (e *Engine) bulkClose(st *State, sl VSlice, where string) {
	if !e.arrayMode {
		unsup("deferred close of a slice of channels outside array mode at %s", where)
	}
	e.nfresh++
	j := mkVar(fmt.Sprintf("j$%d", e.nfresh), SInt)
	rng := mkAnd(mkCmp("<=", mkInt(0), j), mkCmp("<", j, sl.Len))
	el := mkSelect(sl.Arr, j)
	e.assert(st, mkForall([]*Term{j}, mkImplies(rng, mkNot(e.closed(st, el))), nil), "close-once", where, nil)
	sentA := st.mem["@sent"]
	e.freshCursorArray(st, "@closed")
	nc := st.mem["@closed"]
	st.assume(mkForall([]*Term{j}, mkImplies(rng, mkAnd(mkSelect(nc, el), mkEq(mkApp("slen", SInt, el), mkSelect(sentA, el)))), [][]*Term{{mkSelect(sl.Arr, j)}}))
}

// ---------------------------------------------------------------------------------------------
// calls of declared functions

func (e *Engine) callFunc(fn *types.Func, recv Value, args []Value, cx *ast.CallExpr, st *State) Value {
	key := e.w.keyOf(fn)
	where := e.src(cx)
	// external (non-module) functions
	if fn.Pkg() == nil || !strings.HasPrefix(fn.Pkg().Path(), modPath) {
		return e.callExternal(fn, recv, args, cx, st)
	}
	// interface method
	if sig := fn.Type().(*types.Signature); sig.Recv() != nil {
		if _, isIface := sig.Recv().Type().Underlying().(*types.Interface); isIface {
			// static type of the receiver value is concrete (an interface parameter bound to a concrete argument in an inlined body)
			if rt, ok := recv.(VTerm); ok && rt.Typ != nil {
				if _, stillIface := rt.Typ.Underlying().(*types.Interface); !stillIface {
					if obj, _, _ := types.LookupFieldOrMethod(rt.Typ, true, nil, fn.Name()); obj != nil {
						if cm, ok := obj.(*types.Func); ok {
							return e.callFunc(cm, recv, args, cx, st)
						}
					}
				}
			}
			if rt, ok := recv.(VTerm); ok {
				if dt, ok := e.dynType[rt.T.String()]; ok {
					if obj, _, _ := types.LookupFieldOrMethod(dt, true, nil, fn.Name()); obj != nil {
						if cm, ok := obj.(*types.Func); ok {
							return e.callFunc(cm, VTerm{T: rt.T, Typ: dt}, args, cx, st)
						}
					}
				}
			}
			n := sig.Recv().Type()
			name := "?"
			if nn, ok := n.(*types.Named); ok {
				name = nn.Obj().Name()
			}
			ck := shortPkg(fn.Pkg().Path()) + "." + name + "." + fn.Name()
			c := e.w.IfaceContracts[ck]
			if c == nil {
				unsup("no interface contract for %s at %s", ck, where)
			}
			return e.callContract(c, fn, "self", recv, args, cx, st)
		}
	}
	c := e.w.Contracts[key]
	if c != nil && !c.Inline {
		rname := "self"
		if fi := e.w.Funcs[key]; fi != nil && fi.Decl.Recv != nil && len(fi.Decl.Recv.List[0].Names) > 0 {
			rname = fi.Decl.Recv.List[0].Names[0].Name
		}
		return e.callContract(c, fn, rname, recv, args, cx, st)
	}
	fi := e.w.Funcs[key]
	if fi == nil {
		unsup("no body and no contract for %s at %s", key, where)
	}
	if c == nil && !e.inlineable(fi) {
		unsup("call of %s (no contract, not inlineable) at %s", key, where)
	}
	return e.inlineFunc(fi, recv, args, st)
}

func (e *Engine) inlineable(fi *FuncInfo) bool {
	if len(fi.Loops) > 0 {
		return false
	}
	ok := true
	ast.Inspect(fi.Decl.Body, func(n ast.Node) bool {
		switch x := n.(type) {
		case *ast.GoStmt, *ast.SendStmt, *ast.DeferStmt, *ast.SelectStmt:
			ok = false
		case *ast.UnaryExpr:
			if x.Op == token.ARROW {
				ok = false
			}
		}
		return ok
	})
	return ok
}

func (e *Engine) inlineFunc(fi *FuncInfo, recv Value, args []Value, st *State) Value {
	if len(e.frames) > 12 {
		unsup("inlining too deep at %s", fi.Key)
	}
	for _, f := range e.frames {
		if f.fi == fi {
			unsup("recursive inlining of %s", fi.Key)
		}
	}
	e.notes["inlined: "+fi.Key] = true
	e.frames = append(e.frames, frame{pkg: fi.Pkg, fi: fi, what: "inline"})
	defer func() { e.frames = e.frames[:len(e.frames)-1] }()
	info := fi.Pkg.TypesInfo
	if fi.Decl.Recv != nil && len(fi.Decl.Recv.List) > 0 && len(fi.Decl.Recv.List[0].Names) > 0 {
		if obj := info.Defs[fi.Decl.Recv.List[0].Names[0]]; obj != nil {
			st.vars[obj] = recv
		}
	}
	i := 0
	for _, f := range fi.Decl.Type.Params.List {
		for _, n := range f.Names {
			if obj := info.Defs[n]; obj != nil {
				st.vars[obj] = e.coerce(args[i], obj.Type())
			}
			i++
		}
	}
	if fi.Decl.Type.Results != nil {
		for _, f := range fi.Decl.Type.Results.List {
			for _, n := range f.Names {
				if obj := info.Defs[n]; obj != nil {
					st.vars[obj] = e.zeroValue(obj.Type())
				}
			}
		}
	}
	saved := st.defers
	st.defers = nil
	outs := e.execBlock(fi.Decl.Body.List, st)
	sig := fi.Obj.Type().(*types.Signature)
	v := e.mergeInto(st, outs, sig.Results())
	st.defers = saved
	return v
}

// ---------------------------------------------------------------------------------------------
// contract-based call

func (e *Engine) callContract(c *Contract, fn *types.Func, recvName string, recv Value, args []Value, cx *ast.CallExpr, st *State) Value {
	e.callN++
	where := e.src(cx)
	sig := fn.Type().(*types.Signature)
	// instantiated signature as seen by the caller (for result types)
	var isig *types.Signature
	if tv, ok := e.info().Types[cx.Fun]; ok {
		isig, _ = tv.Type.(*types.Signature)
	}
	if isig == nil {
		isig = sig
	}
	if c.Trusted {
		e.notes["trusted contract: "+c.Pkg+"."+c.Key] = true
	} else {
		e.notes["callee contract: "+c.Pkg+"."+c.Key] = true
	}
	names := map[string]Value{}
	if recv != nil {
		names[recvName] = recv
		names["self"] = recv
	}
	// closures become function ids
	type clo struct {
		lit *ast.FuncLit
		fv  VFunc
		idx int
	}
	var clos []clo
	np := sig.Params().Len()
	for i := 0; i < np && i < len(args); i++ {
		a := args[i]
		if cl, ok := a.(VClosure); ok {
			lsig := e.typeOf(cl.Lit).(*types.Signature)
			fv := VFunc{ID: e.fresh("fn_"+sig.Params().At(i).Name(), SInt), Sig: lsig}
			clos = append(clos, clo{lit: cl.Lit, fv: fv, idx: i})
			a = fv
		}
		if nf, ok := a.(VNamedFunc); ok {
			unsup("named function %s passed as value at %s", nf.Fn.Name(), where)
		}
		names[sig.Params().At(i).Name()] = a
		names[fmt.Sprintf("p%d", i)] = a
	}
	tpkg := fn.Pkg()
	callee := c.Pkg + "." + c.Key
	mkEnv := func(s *State, old *State) *SpecEnv {
		return &SpecEnv{e: e, st: s, old: old, names: names, tpkg: tpkg, noScope: true}
	}
	// requires
	for j, cl := range c.byKind("requires", "") {
		t := term(e.evalSpec(cl.Expr, mkEnv(st, nil)))
		if e.fi != nil && e.fi.Contract != nil && e.fi.Contract.Attrs["callrequires"] == "assumed" {
			// a program entry point (cmd/*/main): what the callee requires of values that come from the command line
			// is taken for granted here and listed as an assumption (the program does not validate its flags)
			e.notes["ASSUMED at "+where+": precondition of "+callee+" ("+cl.Text+") on values taken from the command line"] = true
			st.assume(t)
			continue
		}
		e.assert(st, t, fmt.Sprintf("call:%s/requires#%d", callee, j), where+" <- "+cl.Where, nil)
	}
	// ownership: stream arguments are handed over
	borrows := map[string]bool{}
	for _, cl := range c.byKind("borrows", "") {
		for _, n := range cl.Names {
			borrows[n] = true
		}
	}
	pre := st.clone()
	handStream := func(pname string, s VStream, dir types.ChanDir) {
		ids := s.ID.String()
		e.idTerms[ids] = s.ID
		if dir != types.SendOnly {
			e.checkNotMoved(st, s, where)
			if !borrows[pname] {
				st.moved[ids] = true
			}
			nc := e.fresh("consumed", SInt)
			st.assume(mkAnd(mkCmp("<=", e.consumed(st, s.ID), nc), mkCmp("<=", nc, e.slen(s.ID))))
			e.setConsumed(st, s.ID, nc)
		}
		if dir != types.RecvOnly {
			ns := e.fresh("sent", SInt)
			st.assume(mkCmp("<=", e.sent(st, s.ID), ns))
			e.setSent(st, s.ID, ns)
			e.setClosed(st, s.ID, e.fresh("closed", SBool))
		}
	}
	for i := 0; i < np && i < len(args); i++ {
		p := sig.Params().At(i)
		switch a := args[i].(type) {
		case VStream:
			dir := types.SendRecv
			if ch, ok := p.Type().Underlying().(*types.Chan); ok {
				dir = ch.Dir()
			}
			handStream(p.Name(), a, dir)
			if dir != types.SendOnly && hasScalarResult(isig) {
				st.readSet[a.ID.String()] = true
			}
		case VSlice:
			if isChan(a.Elem) {
				// slice of streams handed over: every element
				if a.Len.Op == "int" && a.Len.Int.IsInt64() && a.Len.Int.Int64() <= 16 {
					for k := int64(0); k < a.Len.Int.Int64(); k++ {
						handStream(p.Name(), VStream{ID: mkSelect(a.Arr, mkInt(k)), Elem: a.Elem.Underlying().(*types.Chan).Elem()}, types.RecvOnly)
					}
				} else if e.arrayMode {
					e.notes["symbolic slice of streams passed to "+callee+": element ownership not tracked"] = true
					e.freshCursorArray(st, "@consumed")
					if hasScalarResult(isig) {
						st.readFam = append(st.readFam, famRead{arr: a.Arr, ln: a.Len})
					}
				} else {
					unsup("symbolic slice of streams passed to %s outside array mode", callee)
				}
			}
		}
	}
	for _, cf := range clos {
		st.mem["ncalls:"+cf.fv.ID.String()] = e.fresh("ncalls", SInt)
		st.assume(mkCmp(">=", st.mem["ncalls:"+cf.fv.ID.String()], mkInt(0)))
	}
	// modifies
	for _, cl := range c.byKind("modifies", "") {
		for _, n := range cl.Names {
			v, ok := names[n]
			if !ok {
				// dotted path (e.g. b.report): evaluate as a spec expression in the callee's name space
				if sx, err := parseSpec(n); err == nil {
					v = e.evalSpec(sx, mkEnv(st, nil))
					ok = true
				}
			}
			if !ok {
				unsup("modifies %s: unknown name in contract %s", n, callee)
			}
			if vt, isRef := v.(VTerm); !(isRef && vt.T.Sort == SRef) {
				// a single field (modifies c.columns): the caller must be allowed to write it; only it is havoced
				if i := strings.LastIndex(n, "."); i > 0 {
					if bx, err := parseSpec(n[:i]); err == nil {
						var bv Value
						if nv, ok := names[n[:i]]; ok {
							bv = nv
						} else {
							bv = e.evalSpec(bx, mkEnv(st, nil))
						}
						if bt, ok := bv.(VTerm); ok && bt.T.Sort == SRef {
							rs := bt.T.String()
							fld := n[i+1:]
							if !e.localRefs[rs] && !e.modifiesOK[rs] && !e.modifiesFld[rs+"."+fld] {
								e.staticObl("frame/call-modifies", where, false, callee+" modifies "+rs+"."+fld+" which the caller may not modify", nil)
							}
							e.havocField(st, bt, fld)
						}
					}
				}
				continue
			}
			if vt, ok := v.(VTerm); ok && vt.T.Sort == SRef {
				if _, isIface := vt.Typ.Underlying().(*types.Interface); isIface || strings.HasPrefix(c.Key, "interface ") {
					// interface-level contract: the object's ghost abstract state changes
					if !e.localRefs[vt.T.String()] && !e.modifiesOK[vt.T.String()] {
						e.staticObl("frame/call-modifies", where, false, callee+" modifies the abstract state of "+vt.T.String()+", which the contract of "+e.fi.Key+" does not list under modifies", nil)
					}
					e.havocGhostView(st, vt.T)
					continue
				}
				if !e.localRefs[vt.T.String()] && !e.modifiesOK[vt.T.String()] {
					e.staticObl("frame/call-modifies", where, false, callee+" modifies "+vt.T.String()+" which the caller may not modify", nil)
				}
				e.havocFields(st, vt)
			}
		}
	}
	// results
	var results []Value
	for i := 0; i < isig.Results().Len(); i++ {
		rt := isig.Results().At(i).Type()
		var v Value
		if c.Pure && !isChan(rt) {
			if _, isSl := rt.Underlying().(*types.Slice); isSl {
				unsup("pure contract with slice result")
			}
			var as []*Term
			if recv != nil {
				as = append(as, term(recv))
			}
			for _, a := range args {
				as = append(as, term(a))
			}
			v = e.wrap(mkApp("pure_"+sanitize(c.Pkg+"_"+strings.TrimPrefix(c.Key, "interface ")), e.sortOf(rt), as...), rt)
		} else {
			v = e.freshValue(fmt.Sprintf("%s.r%d", sanitize(c.Key), i), rt, st)
		}
		switch r := v.(type) {
		case VSlice:
			if isChan(r.Elem) && e.arrayMode {
				// fresh, pairwise distinct stream ids; nothing consumed yet
				oldN := st.mem["@nextid"]
				e.freshCursorArray(st, "@nextid")
				newN := st.mem["@nextid"]
				oldC := st.mem["@consumed"]
				nc := e.fresh("consumedA", sortIntArr)
				st.mem["@consumed"] = nc
				e.nfresh += 3
				j := mkVar(fmt.Sprintf("j$%d", e.nfresh), SInt)
				j2 := mkVar(fmt.Sprintf("j$%d", e.nfresh-1), SInt)
				sv := mkVar(fmt.Sprintf("s$%d", e.nfresh-2), SInt)
				rng := func(x *Term) *Term { return mkAnd(mkCmp("<=", mkInt(0), x), mkCmp("<", x, r.Len)) }
				st.assume(mkForall([]*Term{j}, mkImplies(rng(j), mkAnd(mkCmp("<=", oldN, mkSelect(r.Arr, j)), mkCmp("<", mkSelect(r.Arr, j), newN), mkCmp(">=", mkApp("slen", SInt, mkSelect(r.Arr, j)), mkInt(0)))), [][]*Term{{mkSelect(r.Arr, j)}}))
				st.assume(mkForall([]*Term{j, j2}, mkImplies(mkAnd(rng(j), rng(j2), mkCmp("<", j, j2)), mkNot(mkEq(mkSelect(r.Arr, j), mkSelect(r.Arr, j2)))), [][]*Term{{mkSelect(r.Arr, j), mkSelect(r.Arr, j2)}}))
				st.assume(mkForall([]*Term{sv}, mkEq(mkSelect(nc, sv), mkIte(mkCmp("<", sv, oldN), mkSelect(oldC, sv), mkInt(0))), [][]*Term{{mkSelect(nc, sv)}}))
			}
		case VStream:
			st.owned[r.ID.String()] = callee + " result at " + where
			e.idTerms[r.ID.String()] = r.ID
			if e.arrayMode {
				st.assume(mkCmp("<=", st.mem["@nextid"], r.ID))
				st.mem["@nextid"] = mkArith("+", r.ID, mkInt(1))
				e.setConsumed(st, r.ID, mkInt(0))
			}
		case VTerm:
			if r.T.Sort == SRef {
				e.localRefs[r.T.String()] = true
				// a result of static type *T (T a concrete named struct) has that dynamic type: method calls through an
				// interface it is later stored in resolve to T's methods
				if pt, ok := rt.Underlying().(*types.Pointer); ok {
					if _, isStruct := pt.Elem().Underlying().(*types.Struct); isStruct {
						if dn := dynTypeName(pt.Elem()); dn != "" {
							e.dynType[r.T.String()] = rt
							st.assume(mkEq(mkApp("dyntype", SInt, r.T), typeTag(dn)))
						}
					}
				}
			}
		}
		results = append(results, v)
	}
	if len(results) == 1 {
		names["result"] = results[0]
	}
	for i, r := range results {
		names[fmt.Sprintf("result%d", i)] = r
	}
	if fi := e.w.Funcs[e.w.keyOf(fn)]; fi != nil && fi.Decl.Type.Results != nil {
		i := 0
		for _, f := range fi.Decl.Type.Results.List {
			for _, n := range f.Names {
				names[n.Name] = results[i]
				i++
			}
			if len(f.Names) == 0 {
				i++
			}
		}
	}
	// ghost call counters of the receiver (attr counts = name, ...): they only grow; the contract says by how much
	if cs := c.Attrs["counts"]; cs != "" && recv != nil {
		if rt, ok := recv.(VTerm); ok {
			for _, cn := range strings.Split(cs, ",") {
				key := "gcnt:" + strings.TrimSpace(cn) + ":" + rt.T.String()
				old := st.getMem(key, mkApp("gcnt0_"+strings.TrimSpace(cn), SInt, rt.T))
				n := e.fresh("gcnt", SInt)
				st.assume(mkCmp("<=", old, n))
				st.mem[key] = n
			}
		}
	}
	// the callee may allocate
	e.advanceAlloc(st)
	// ensures
	for _, cl := range c.byKind("ensures", "") {
		t := term(e.evalSpec(cl.Expr, mkEnv(st, pre)))
		st.assume(t)
		// objects the callee promises to be fresh (top-level conjuncts fresh(x)) belong to the caller now: it may write them
		var conj func(x *SExpr)
		conj = func(x *SExpr) {
			if x.Kind == "binary" && x.Val == "&&" {
				conj(x.Args[0])
				conj(x.Args[1])
				return
			}
			if x.Kind == "call" && len(x.Args) == 2 && x.Args[0].Kind == "ident" && x.Args[0].Val == "fresh" {
				func() {
					defer func() { recover() }()
					if v, ok := e.evalSpec(x.Args[1], mkEnv(st, pre)).(VTerm); ok && v.T.Sort == SRef {
						e.localRefs[v.T.String()] = true
					}
				}()
			}
		}
		conj(cl.Expr)
	}
	// assumes: postconditions of a function under contract that are NOT checked against its body (effects that live
	// outside the verifier's subset, e.g. what a reflection-based codec leaves in a file); reported as assumptions
	for _, cl := range c.byKind("assumes", "") {
		e.notes["assumed (unchecked) postcondition of "+callee+": "+cl.Label+" "+cl.Text] = true
		st.assume(term(e.evalSpec(cl.Expr, mkEnv(st, pre))))
	}
	// offers: postconditions proved like ensures but handed only to callers that ask for them by label
	// (//@ import "label"), so that rarely needed conditional facts do not burden every call site
	for _, cl := range c.byKind("offers", "") {
		if e.importAll || e.imports(cl.Label) {
			t := term(e.evalSpec(cl.Expr, mkEnv(st, pre)))
			st.assume(t)
		}
	}
	// slices of streams returned: if an ensures pins the length to a literal, use it and own the elements
	for i, r := range results {
		sl, ok := r.(VSlice)
		if !ok || !isChan(sl.Elem) {
			continue
		}
		for _, a := range st.pc {
			if a.Op == "=" && len(a.Args) == 2 && a.Args[0].String() == sl.Len.String() && a.Args[1].Op == "int" {
				sl.Len = a.Args[1]
			}
		}
		results[i] = sl
		if sl.Len.Op == "int" && sl.Len.Int.IsInt64() && sl.Len.Int.Int64() <= 16 {
			for k := int64(0); k < sl.Len.Int.Int64(); k++ {
				id := mkSelect(sl.Arr, mkInt(k))
				st.owned[id.String()] = callee + " result[" + fmt.Sprint(k) + "] at " + where
				e.idTerms[id.String()] = id
			}
		}
	}
	if len(results) == 1 {
		names["result"] = results[0]
	}
	// closures
	for _, cf := range clos {
		e.handleClosureArg(cf.lit, cf.fv, st, where)
	}
	{
		rk := strings.NewReplacer(".", "_", "interface ", "").Replace(c.Key)
		cargs := append([]Value(nil), args...)
		for _, cf := range clos {
			if cf.idx < len(cargs) {
				cargs[cf.idx] = cf.fv
			}
		}
		e.callArgs[rk] = append(e.callArgs[rk], cargs)
		// per-path count of contract calls of this callee (spec: ncalled(Callee_Name))
		st.mem["ncalled:"+rk] = mkArith("+", st.getMem("ncalled:"+rk, mkInt(0)), mkInt(1))
		if len(results) == 1 {
			e.callRes[rk] = append(e.callRes[rk], results[0])
		} else if len(results) > 1 {
			e.callRes[rk] = append(e.callRes[rk], VTuple(results))
		}
	}
	switch len(results) {
	case 0:
		return VTuple{}
	case 1:
		return results[0]
	}
	return VTuple(results)
}

// ---------------------------------------------------------------------------------------------
// closures passed to contract-specified stages

func (e *Engine) litOrdinal(lit *ast.FuncLit) int {
	fi := e.frames[len(e.frames)-1].fi
	if fi == nil {
		return -1
	}
	for i, l := range fi.Lits {
		if l == lit {
			return i
		}
	}
	return -1
}

func (e *Engine) litClauses(lit *ast.FuncLit, kind string) []*Clause {
	fi := e.frames[len(e.frames)-1].fi
	if fi == nil || fi.Contract == nil {
		return nil
	}
	i := e.litOrdinal(lit)
	if i < 0 {
		return nil
	}
	return fi.Contract.byKind(kind, fmt.Sprintf("lit#%d", i))
}

// variables declared outside lit and assigned inside it
func (e *Engine) capturedAssigned(lit *ast.FuncLit) []types.Object {
	seen := map[types.Object]bool{}
	var out []types.Object
	mark := func(l ast.Expr) {
		for {
			switch lx := ast.Unparen(l).(type) {
			case *ast.IndexExpr:
				l = lx.X
				continue
			case *ast.Ident:
				o := e.info().ObjectOf(lx)
				if o != nil && (o.Pos() < lit.Pos() || o.Pos() > lit.End()) && !seen[o] {
					if _, isVar := o.(*types.Var); isVar {
						seen[o] = true
						out = append(out, o)
					}
				}
			}
			return
		}
	}
	ast.Inspect(lit.Body, func(n ast.Node) bool {
		switch x := n.(type) {
		case *ast.AssignStmt:
			for _, l := range x.Lhs {
				mark(l)
			}
		case *ast.IncDecStmt:
			mark(x.X)
		}
		return true
	})
	return out
}

// refs (local objects) whose methods with modifies are called inside lit
func (e *Engine) capturedMutatedRefs(lit *ast.FuncLit, st *State) []VTerm {
	var out []VTerm
	seen := map[string]bool{}
	ast.Inspect(lit.Body, func(n ast.Node) bool {
		cx, ok := n.(*ast.CallExpr)
		if !ok {
			return true
		}
		se, ok := cx.Fun.(*ast.SelectorExpr)
		if !ok {
			return true
		}
		sel := e.info().Selections[se]
		if sel == nil || sel.Kind() != types.MethodVal {
			return true
		}
		c := e.w.Contracts[e.w.keyOf(sel.Obj().(*types.Func))]
		if c == nil || len(c.byKind("modifies", "")) == 0 {
			return true
		}
		if id, ok := ast.Unparen(se.X).(*ast.Ident); ok {
			if o := e.info().ObjectOf(id); o != nil && (o.Pos() < lit.Pos() || o.Pos() > lit.End()) {
				if v, ok := st.vars[o].(VTerm); ok && v.T.Sort == SRef && !seen[v.T.String()] {
					seen[v.T.String()] = true
					out = append(out, v)
				}
			}
		}
		return true
	})
	return out
}

func hasScalarResult(sig *types.Signature) bool {
	for i := 0; i < sig.Results().Len(); i++ {
		if !typeHasChan(sig.Results().At(i).Type()) {
			return true
		}
	}
	return false
}

// does the spec expression mention one of the names (or old)?
func specMentions(x *SExpr, names map[string]bool) bool {
	if x == nil {
		return false
	}
	if x.Kind == "old" {
		return true
	}
	if x.Kind == "ident" && names[x.Val] {
		return true
	}
	for _, a := range x.Args {
		if specMentions(a, names) {
			return true
		}
	}
	return false
}

func (e *Engine) handleClosureArg(lit *ast.FuncLit, fv VFunc, st *State, where string) {
	ord := e.litOrdinal(lit)
	captured := e.capturedAssigned(lit)
	mrefs := e.capturedMutatedRefs(lit, st)
	invs := e.litClauses(lit, "invariant")
	yields := e.litClauses(lit, "yields")
	ens := e.litClauses(lit, "ensures")
	pos := lit.Body.Lbrace + 1
	ncalls := e.ncalls(st, fv.ID)
	stateful := len(captured) > 0 || len(mrefs) > 0
	if stateful && len(invs) == 0 && len(yields) == 0 {
		// no contract for the closure: results are unconstrained, captured state is lost
		e.notes[fmt.Sprintf("closure lit#%d of %s is stateful and has no invariant: results unconstrained", ord, e.fi.Key)] = true
	}
	kc := e.fresh("k", SInt)
	withCalls := func(s *State, calls *Term, extra map[string]Value) *SpecEnv {
		env := e.specEnvAt(s, pos)
		n := map[string]Value{}
		for k, v := range env.names {
			n[k] = v
		}
		n["calls"] = VTerm{T: calls, Typ: types.Typ[types.Int]}
		n["fn"] = fv // the closure's own call log: fn.ret(k), fn.arg0(k)
		for k, v := range extra {
			n[k] = v
		}
		env.names = n
		return env
	}
	// establish invariants with calls == 0
	for j, cl := range invs {
		t := term(e.evalSpec(cl.Expr, withCalls(st, mkInt(0), nil)))
		e.assert(st, t, fmt.Sprintf("lit#%d/establish#%d", ord, j), cl.Where, cl.Tags)
	}
	// step
	step := st.clone()
	for _, o := range captured {
		if _, ok := step.vars[o]; ok {
			step.vars[o] = e.freshValue(o.Name(), o.Type(), step)
		}
	}
	for _, r := range mrefs {
		e.havocFields(step, r)
	}
	step.assume(mkAnd(mkCmp("<=", mkInt(0), kc), mkCmp("<", kc, ncalls)))
	for _, cl := range invs {
		step.assume(term(e.evalSpec(cl.Expr, withCalls(step, kc, nil))))
	}
	// bind parameters to the k-th logged arguments
	i := 0
	argNames := map[string]Value{}
	for _, f := range lit.Type.Params.List {
		for _, n := range f.Names {
			av := e.fnArg(fv, i, kc)
			if obj := e.info().Defs[n]; obj != nil {
				step.vars[obj] = av
			}
			argNames[fmt.Sprintf("arg%d", i)] = av
			argNames[n.Name] = av
			i++
		}
	}
	preStep := step.clone()
	saved := step.defers
	step.defers = nil
	npc := len(step.pc)
	e.inLit++
	// loop invariants inside the closure body may mention the index of the current call and the call log
	savedCalls, hadCalls := e.selfNames["calls"]
	savedFn, hadFn := e.selfNames["fn"]
	e.selfNames["calls"] = VTerm{T: kc, Typ: types.Typ[types.Int]}
	e.selfNames["fn"] = fv
	outs := e.execBlock(lit.Body.List, step)
	if hadCalls {
		e.selfNames["calls"] = savedCalls
	} else {
		delete(e.selfNames, "calls")
	}
	if hadFn {
		e.selfNames["fn"] = savedFn
	} else {
		delete(e.selfNames, "fn")
	}
	e.inLit--
	lsig := fv.Sig
	hasRet := lsig.Results().Len() == 1
	if !stateful {
		// stateless: result is a function of the arguments
		tmp := step
		v := e.mergeInto(tmp, outs, lsig.Results())
		tmp.defers = saved
		if hasRet {
			// only branch conditions may have been added to the path condition
			body := term(v)
			extra := tmp.pc[npc:]
			kb := mkVar(fmt.Sprintf("k$%d", e.nfresh+1), SInt)
			e.nfresh++
			m := map[string]*Term{kc.Name: kb}
			guard := mkAnd(mkCmp("<=", mkInt(0), kb), mkCmp("<", kb, ncalls))
			lhs := term(e.fnRet(fv, kb))
			var conj []*Term
			conj = append(conj, mkEq(lhs, subst(body, m)))
			for _, x := range extra {
				// assumptions added while executing the body (disjunction of branch conditions, callee facts): keep those that mention k
				conj = append(conj, subst(x, m))
			}
			q := mkForall([]*Term{kb}, mkImplies(guard, mkAnd(conj...)), [][]*Term{{lhs}})
			st.assume(q)
		}
		// per-step ensures of stateless closures
		for j, cl := range ens {
			env := withCalls(tmp, kc, argNames)
			if hasRet {
				env.names["ret"] = v
			}
			env.old = preStep
			t := term(e.evalSpec(cl.Expr, env))
			e.assert(tmp, t, fmt.Sprintf("lit#%d/ensures#%d", ord, j), cl.Where, cl.Tags)
		}
		return
	}
	for _, o := range outs {
		if o.kind == fBreak || o.kind == fContinue {
			unsup("break/continue escaping closure")
		}
		s2 := o.st
		extra := map[string]Value{}
		for k, v := range argNames {
			extra[k] = v
		}
		if hasRet {
			if o.kind != fReturn {
				unsup("closure falls off the end")
			}
			extra["ret"] = e.coerce(o.ret[0], lsig.Results().At(0).Type())
			// by definition of the call log, the value returned by this call is fn.ret(k)
			s2.assume(mkEq(term(e.fnRet(fv, kc)), term(extra["ret"])))
		}
		for _, cl := range e.litClauses(lit, "use") {
			env := withCalls(s2, kc, extra)
			env.old = preStep
			e.useLemma(cl.Expr, env, s2, cl.Where, hasTag(cl.Tags, "cond"))
		}
		for j, cl := range invs {
			env := withCalls(s2, mkArith("+", kc, mkInt(1)), extra)
			env.old = preStep
			t := term(e.evalSpec(cl.Expr, env))
			e.assert(s2, t, fmt.Sprintf("lit#%d/preserve#%d", ord, j), cl.Where, cl.Tags)
			s2.assume(t) // proved just above: later obligations of this step may rely on it
		}
		for _, cl := range e.litClauses(lit, "thenuse") {
			env := withCalls(s2, kc, extra)
			env.old = preStep
			e.useLemma(cl.Expr, env, s2, cl.Where, hasTag(cl.Tags, "cond"))
		}
		for j, cl := range yields {
			if !hasRet {
				continue
			}
			env := withCalls(s2, kc, extra)
			env.old = preStep
			y := term(e.evalSpec(cl.Expr, env))
			e.assert(s2, mkEq(term(extra["ret"]), y), fmt.Sprintf("lit#%d/yields#%d", ord, j), cl.Where, cl.Tags)
		}
		for j, cl := range ens {
			env := withCalls(s2, kc, extra)
			env.old = preStep
			t := term(e.evalSpec(cl.Expr, env))
			e.assert(s2, t, fmt.Sprintf("lit#%d/ensures#%d", ord, j), cl.Where, cl.Tags)
		}
	}
	// after the call: captured state belongs to the stage's process
	for _, o := range captured {
		if _, ok := st.vars[o]; ok {
			st.vars[o] = e.freshValue(o.Name(), o.Type(), st)
		}
	}
	for _, r := range mrefs {
		e.havocFields(st, r)
	}
	// per-call postconditions that do not mention captured state hold for every call: export them
	if hasRet {
		capNames := map[string]bool{}
		for _, o := range captured {
			capNames[o.Name()] = true
		}
		for _, cl := range ens {
			if specMentions(cl.Expr, capNames) {
				continue
			}
			kb := mkVar(fmt.Sprintf("k$%d", e.nfresh+1), SInt)
			e.nfresh++
			env := withCalls(st, kb, nil)
			n := env.names
			ai := 0
			for _, f := range lit.Type.Params.List {
				for _, pn := range f.Names {
					n[fmt.Sprintf("arg%d", ai)] = e.fnArg(fv, ai, kb)
					n[pn.Name] = e.fnArg(fv, ai, kb)
					ai++
				}
			}
			n["ret"] = e.fnRet(fv, kb)
			env.noScope = false
			t := term(e.evalSpec(cl.Expr, env))
			guard := mkAnd(mkCmp("<=", mkInt(0), kb), mkCmp("<", kb, ncalls))
			st.assume(mkForall([]*Term{kb}, mkImplies(guard, t), [][]*Term{{term(e.fnRet(fv, kb))}}))
		}
	}
	// results: ret(k) == yields[calls:=k]
	if hasRet {
		for _, cl := range yields {
			kb := mkVar(fmt.Sprintf("k$%d", e.nfresh+1), SInt)
			e.nfresh++
			env := withCalls(st, kb, nil)
			env.bound = map[string]*Term{}
			// arguments of the k-th call
			n := env.names
			for ai := 0; ai < lsig.Params().Len(); ai++ {
				n[fmt.Sprintf("arg%d", ai)] = e.fnArg(fv, ai, kb)
			}
			y := term(e.evalSpec(cl.Expr, env))
			guard := mkAnd(mkCmp("<=", mkInt(0), kb), mkCmp("<", kb, ncalls))
			lhs := term(e.fnRet(fv, kb))
			st.assume(mkForall([]*Term{kb}, mkImplies(guard, mkEq(lhs, y)), [][]*Term{{lhs}}))
		}
	}
}

// imports: does the contract of the function being verified import offers with this label?
func (e *Engine) imports(label string) bool {
	if label == "" || len(e.frames) == 0 {
		return false
	}
	fi := e.frames[0].fi
	if fi == nil || fi.Contract == nil {
		return false
	}
	for _, cl := range fi.Contract.byKind("import", "") {
		if cl.Label == label { // the first quoted name is parsed as the clause label
			return true
		}
		for _, n := range cl.Names {
			if strings.Trim(n, `"`) == label {
				return true
			}
		}
	}
	return false
}
