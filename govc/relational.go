package main

import (
	"fmt"
	"go/types"
	"sort"
	"strings"
)

// Relational verification by self-composition (C18). A contract may carry clauses
//
//	//@ rel "name" param lam real        a scalar shared by the two runs
//	//@ rel "name" assume <expr>         how the inputs of the second run relate to those of the first
//	//@ rel "name" use lemma(...)        lemma instances at the joint exit
//	//@ rel "name" step <expr>           intermediate obligation, then assumed
//	//@ rel "name" ensures <expr>        what must hold of the two runs' results
//
// The body is executed twice on the real code: run 1 on the parameters, run 2 on fresh copies of the parameters
// (same receiver, hence same configuration), starting from run 1's final state so that both path conditions are
// available. In rel clauses an expression denotes its value in run 1; second(e) denotes it in run 2 (parameters,
// results, locals at exit, res()/arg() of callee calls). Callees are represented by their contracts in both runs.

type relRun struct {
	st       *State
	names    map[string]Value
	callRes  map[string][]Value
	callArgs map[string][][]Value
}

func relLabels(c *Contract) []string {
	seen := map[string]bool{}
	var out []string
	for _, cl := range c.Clauses {
		if cl.Kind == "rel" && cl.Scope == "" && !seen[cl.Label] {
			seen[cl.Label] = true
			out = append(out, cl.Label)
		}
	}
	sort.Strings(out)
	return out
}

// runBody executes the function body from st and returns the exits after defers and spawned processes
func (e *Engine) runBody(fi *FuncInfo, st *State) []Out {
	outs := e.execBlock(fi.Decl.Body.List, st)
	var finals []Out
	for _, o := range outs {
		if o.kind == fBreak || o.kind == fContinue {
			unsup("break/continue outside loop")
		}
		finals = append(finals, o)
	}
	finals = e.runDefers(finals)
	var done []Out
	for _, o := range finals {
		done = append(done, e.runProcs(o)...)
	}
	return done
}

func (e *Engine) resultNames(fi *FuncInfo, o Out, sig *types.Signature, base map[string]Value) map[string]Value {
	names := map[string]Value{}
	for k, v := range base {
		names[k] = v
	}
	if o.kind == fReturn {
		for i := range o.ret {
			if i < sig.Results().Len() {
				o.ret[i] = e.coerceNil(o.ret[i], sig.Results().At(i).Type())
			}
		}
		if len(o.ret) == 1 {
			names["result"] = o.ret[0]
		}
		for i, r := range o.ret {
			names[fmt.Sprintf("result%d", i)] = r
		}
	}
	return names
}

func (e *Engine) verifyRel(fi *FuncInfo, label string) (rep *FuncReport) {
	e.resetFor(fi)
	e.inRel = true
	defer func() { e.inRel = false }()
	c := fi.Contract
	key := fi.Key + "#rel:" + label
	var tags []string
	for _, cl := range c.Clauses {
		if cl.Kind == "rel" && cl.Label == label {
			for _, t := range cl.Tags {
				if !hasTag(tags, t) {
					tags = append(tags, t)
				}
			}
		}
	}
	rep = &FuncReport{Key: key, Tags: tags}
	e.curTags = tags
	defer func() {
		if r := recover(); r != nil {
			if u, ok := r.(unsupported); ok {
				rep.Status = "out-of-reach"
				rep.Reason = u.msg
				rep.Obls = e.obls
				rep.Notes = sortedKeys(e.notes)
				return
			}
			panic(r)
		}
	}()
	if c.Attrs["streams"] == "arrays" {
		unsup("relational verification of array-mode functions")
	}
	info := fi.Pkg.TypesInfo
	sig := fi.Obj.Type().(*types.Signature)
	e.arrayMode = false
	st := newState()
	if fi.Decl.Recv != nil && len(fi.Decl.Recv.List) > 0 && len(fi.Decl.Recv.List[0].Names) > 0 {
		n := fi.Decl.Recv.List[0].Names[0]
		if obj := info.Defs[n]; obj != nil {
			v := VTerm{T: mkConst(n.Name, SRef), Typ: obj.Type()}
			st.vars[obj] = v
			e.baseNames[n.Name] = v
			e.baseNames["self"] = v
			e.selfNames[n.Name] = v
			e.selfNames["self"] = v
		}
	}
	type par struct {
		name string
		obj  types.Object
	}
	var pars []par
	for _, f := range fi.Decl.Type.Params.List {
		for _, n := range f.Names {
			if obj := info.Defs[n]; obj != nil {
				v := e.paramValue(n.Name, obj.Type(), st)
				st.vars[obj] = v
				e.baseNames[n.Name] = v
				pars = append(pars, par{n.Name, obj})
			}
		}
	}
	pos := fi.Decl.Body.Lbrace + 1
	for _, cl := range c.byKind("requires", "") {
		st.assume(term(e.evalSpec(cl.Expr, e.specEnvAt(st, pos))))
	}
	e.old = st.clone()
	// scalars shared by the two runs
	shared := map[string]Value{}
	for _, cl := range c.Clauses {
		if cl.Kind != "rel" || cl.Label != label {
			continue
		}
		f := strings.Fields(cl.Text)
		if len(f) == 3 && f[0] == "param" {
			switch f[2] {
			case "real":
				shared[f[1]] = VTerm{T: mkConst(f[1], SReal), Typ: types.Typ[types.Float64]}
			case "int":
				shared[f[1]] = VTerm{T: mkConst(f[1], SInt), Typ: types.Typ[types.Int]}
			default:
				unsup("rel param kind %s", f[2])
			}
		}
	}
	base1 := map[string]Value{}
	for k, v := range e.baseNames {
		base1[k] = v
	}
	nobl := 0
	for i1, o1 := range e.runBody(fi, st) {
		run1 := &relRun{st: o1.st.clone(), names: e.resultNames(fi, o1, sig, base1), callRes: e.callRes, callArgs: e.callArgs}
		// second run: fresh copies of the parameters, same receiver; starts from run 1's final state
		st2 := o1.st.clone()
		st2.defers = nil
		st2.procs = nil
		e.callRes = map[string][]Value{}
		e.callArgs = map[string][][]Value{}
		base2 := map[string]Value{}
		for k, v := range base1 {
			base2[k] = v
		}
		for _, p := range pars {
			v := e.paramValue(p.name+"_2nd", p.obj.Type(), st2)
			st2.vars[p.obj] = v
			base2[p.name] = v
		}
		saveBase := e.baseNames
		e.baseNames = base2
		for _, cl := range c.byKind("requires", "") {
			env := e.specEnvAt(st2, pos)
			n := map[string]Value{}
			for k, v := range env.names {
				n[k] = v
			}
			for _, p := range pars {
				n[p.name] = base2[p.name]
			}
			env.names = n
			st2.assume(term(e.evalSpec(cl.Expr, env)))
		}
		outs2 := e.runBody(fi, st2)
		cr2, ca2 := e.callRes, e.callArgs // the call logs of run 2 (e.callRes is switched to run 1's while clauses are evaluated)
		for i2, o2 := range outs2 {
			run2 := &relRun{st: o2.st, names: e.resultNames(fi, o2, sig, base2), callRes: cr2, callArgs: ca2}
			joint := o2.st
			mk := func(r *relRun) *SpecEnv {
				env := e.specEnvAt(r.st, fi.Decl.Body.Rbrace)
				n := map[string]Value{}
				for k, v := range r.names {
					n[k] = v
				}
				for k, v := range shared {
					n[k] = v
				}
				env.names = n
				env.pos = fi.Decl.Body.Rbrace
				return env
			}
			env1, env2 := mk(run1), mk(run2)
			env1.rel1, env1.rel2 = run1, run2
			env2.rel1, env2.rel2 = run1, run2
			env1.other = env2
			e.callRes, e.callArgs = run1.callRes, run1.callArgs
			n1 := len(run1.st.pc)
			flush := func() {
				for _, t := range run1.st.pc[n1:] {
					joint.assume(t)
				}
				n1 = len(run1.st.pc)
			}
			for _, cl := range c.Clauses {
				if cl.Kind != "rel" || cl.Label != label || cl.Scope != "" {
					continue
				}
				text := strings.TrimSpace(cl.Text)
				sp := strings.IndexAny(text, " \t")
				if sp < 0 {
					continue
				}
				sub, rest := text[:sp], strings.TrimSpace(text[sp:])
				condUse := false
				if sub == "use[cond]" {
					sub, condUse = "use", true
				}
				if sub == "param" {
					continue
				}
				x, err := parseSpec(rest)
				if err != nil {
					unsup("%s: %v", cl.Where, err)
				}
				suffix := ""
				if len(outs2) > 1 || i1 > 0 {
					suffix = fmt.Sprintf("@%d.%d", i1+1, i2+1)
				}
				switch sub {
				case "assume":
					t := term(e.evalSpec(x, env1))
					flush()
					joint.assume(t)
				case "use":
					e.useLemmaRel(x, env1, joint, cl.Where, condUse, flush)
				case "step", "ensures":
					t := term(e.evalSpec(x, env1))
					flush()
					nobl++
					name := fmt.Sprintf("rel:%s/%s#%d%s", label, sub, nobl, suffix)
					_ = name
					e.assert(joint, t, fmt.Sprintf("rel:%s/%s#%d%s", label, sub, nobl, suffix), cl.Where, tags)
					if sub == "step" {
						joint.assume(t)
					}
				default:
					unsup("%s: unknown rel clause %q", cl.Where, sub)
				}
			}
			e.obls = append(e.obls, &Obligation{Name: fmt.Sprintf("%s/cover/exit@%d.%d", key, i1+1, i2+1), Func: key, Tags: tags, Hyps: append([]*Term(nil), joint.pc...), Goal: tFalse, Kind: "cover", Where: c.Where})
		}
		e.baseNames = saveBase
	}
	rep.Status = "checked"
	rep.Obls = e.obls
	rep.Notes = sortedKeys(e.notes)
	return rep
}

// useLemmaRel: a lemma instance whose arguments are evaluated in the run-1 view (second(..) switches); the assumed
// instance goes to the joint state
func (e *Engine) useLemmaRel(x *SExpr, env *SpecEnv, joint *State, where string, cond bool, flush func()) {
	e.useLemma(x, env, joint, where, cond)
	flush()
}
