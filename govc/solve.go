package main

import (
	"bytes"
	"context"
	"fmt"
	"os"
	"os/exec"
	"path/filepath"
	"sort"
	"strings"
	"sync"
	"time"
)

var builtinOps = map[string]bool{}

// slice hypotheses to those connected (through shared constants) with the goal
func sliceHyps(hyps []*Term, goal *Term) []*Term {
	type hinfo struct {
		t    *Term
		syms map[string]bool
	}
	infos := make([]hinfo, len(hyps))
	for i, h := range hyps {
		st := newSymtab()
		st.walk(h)
		m := map[string]bool{}
		for k := range st.consts {
			m[k] = true
		}
		infos[i] = hinfo{h, m}
	}
	gs := newSymtab()
	gs.walk(goal)
	reach := map[string]bool{}
	for k := range gs.consts {
		reach[k] = true
	}
	used := make([]bool, len(hyps))
	changed := true
	for changed {
		changed = false
		for i, hi := range infos {
			if used[i] {
				continue
			}
			hit := len(hi.syms) == 0
			for k := range hi.syms {
				if reach[k] {
					hit = true
					break
				}
			}
			if hit {
				used[i] = true
				changed = true
				for k := range hi.syms {
					reach[k] = true
				}
			}
		}
	}
	var out []*Term
	for i, h := range hyps {
		if used[i] {
			out = append(out, h)
		}
	}
	return out
}

func hasQuant(t *Term) bool {
	if t.Op == "forall" || t.Op == "exists" {
		return true
	}
	for _, a := range t.Args {
		if hasQuant(a) {
			return true
		}
	}
	return false
}

func smtFile(o *Obligation, slice bool) string { return smtFileQ(o, slice, false) }

// nonlinear: products of two non-literals, division by a non-literal, sqrt / powr applications
func nonlinear(t *Term) bool {
	lit := func(x *Term) bool { return x.Op == "int" || x.Op == "real" }
	switch t.Op {
	case "*":
		n := 0
		for _, a := range t.Args {
			if !lit(a) && !(a.Op == "to_real" && len(a.Args) == 1 && lit(a.Args[0])) {
				n++
			}
		}
		if n >= 2 {
			return true
		}
	case "/", "div", "mod":
		if len(t.Args) == 2 && !lit(t.Args[1]) && !(t.Args[1].Op == "to_real" && lit(t.Args[1].Args[0])) {
			return true
		}
	case "app":
		if t.Name == "sqrt" || t.Name == "powr" {
			return true
		}
	}
	for _, a := range t.Args {
		if nonlinear(a) {
			return true
		}
	}
	return false
}

// abstractNL: nonlinear products and quotients become applications of uninterpreted functions (umul_*, udiv_*), so a
// goal that only needs "equal operands give equal products" is decided by congruence instead of nonlinear arithmetic.
// Real multiplication/division is one interpretation of the uninterpreted symbols, so unsat carries over (sound).
func abstractNL(t *Term, memo map[*Term]*Term) *Term {
	if r, ok := memo[t]; ok {
		return r
	}
	lit := func(x *Term) bool {
		return x.Op == "int" || x.Op == "real" || (x.Op == "to_real" && len(x.Args) == 1 && (x.Args[0].Op == "int"))
	}
	var args []*Term
	changed := false
	for _, a := range t.Args {
		b := abstractNL(a, memo)
		if b != a {
			changed = true
		}
		args = append(args, b)
	}
	var pats [][]*Term
	for _, p := range t.Pats {
		var q []*Term
		for _, x := range p {
			y := abstractNL(x, memo)
			if y != x {
				changed = true
			}
			q = append(q, y)
		}
		pats = append(pats, q)
	}
	r := t
	tag := "Real"
	if t.Sort == SInt {
		tag = "Int"
	}
	switch {
	case t.Op == "*" && len(args) == 2 && !lit(args[0]) && !lit(args[1]):
		a, b := args[0], args[1]
		if a.String() > b.String() { // commutativity by canonical argument order
			a, b = b, a
		}
		r = mkApp("umul_"+tag, t.Sort, a, b)
	case t.Op == "/" && len(args) == 2 && !lit(args[1]):
		r = mkApp("udiv_"+tag, t.Sort, args[0], args[1])
	case changed:
		c := *t
		c.Args = args
		c.Pats = pats
		c.str = ""
		r = &c
	}
	memo[t] = r
	return r
}

// smtFileAbstractNL: the sliced problem with nonlinear operations abstracted; "" when there are none
func smtFileAbstractNL(o *Obligation) string {
	memo := map[*Term]*Term{}
	hyps := sliceHyps(o.Hyps, o.Goal)
	any := false
	var h2 []*Term
	for _, h := range hyps {
		a := abstractNL(h, memo)
		if a != h {
			any = true
		}
		h2 = append(h2, a)
	}
	g := abstractNL(o.Goal, memo)
	if g != o.Goal {
		any = true
	}
	if !any {
		return ""
	}
	o2 := *o
	o2.Hyps = h2
	o2.Goal = g
	o2.anl = true
	return smtFileQ(&o2, false, false)
}

// smtFileLinear: the sliced problem without the hypotheses that need nonlinear arithmetic. Fewer hypotheses, so
// unsat is sound; it keeps index/bookkeeping goals away from the nonlinear solver. "" when there is nothing to drop.
func smtFileLinear(o *Obligation) string {
	if nonlinear(o.Goal) {
		return ""
	}
	hyps := sliceHyps(o.Hyps, o.Goal)
	var h2 []*Term
	for _, h := range hyps {
		if !nonlinear(h) {
			h2 = append(h2, h)
		}
	}
	if len(h2) == len(hyps) {
		return ""
	}
	o2 := *o
	o2.Hyps = h2
	return smtFileQ(&o2, false, false)
}

func smtFileQ(o *Obligation, slice bool, dropQuant bool) string {
	hyps := o.Hyps
	if slice {
		hyps = sliceHyps(hyps, o.Goal)
	}
	if dropQuant {
		var h2 []*Term
		for _, h := range hyps {
			if !hasQuant(h) {
				h2 = append(h2, h)
			}
		}
		hyps = h2
	}
	st := newSymtab()
	for _, h := range hyps {
		st.walk(h)
	}
	st.walk(o.Goal)
	// prelude closure
	need := map[string]bool{}
	var addDep func(n string)
	addDep = func(n string) {
		if need[n] {
			return
		}
		if p, ok := prelude[n]; ok {
			need[n] = true
			for _, d := range p.Deps {
				addDep(d)
			}
		}
	}
	for n := range st.funcs {
		addDep(n)
	}
	for _, l := range usedLemmaFuncs(hyps, o.Goal) {
		addDep(l)
	}
	// nonlinear-abstracted rendering: the defining axioms of derived streams are abstracted the same way
	anlAx := map[string]*Term{}
	if o.anl {
		memo := map[*Term]*Term{}
		for n := range need {
			if p := prelude[n]; p.Ax != nil {
				a := abstractNL(p.Ax, memo)
				anlAx[n] = a
				st.walk(a)
			}
		}
	}
	var sb strings.Builder
	sb.WriteString("(set-option :produce-models true)\n(set-logic ALL)\n")
	fmt.Fprintf(&sb, "; obligation %s\n; %s\n", o.Name, o.Where)
	var sorts []string
	for s := range st.sorts {
		sorts = append(sorts, string(s))
	}
	sort.Strings(sorts)
	for _, s := range sorts {
		fmt.Fprintf(&sb, "(declare-sort %s 0)\n", s)
	}
	// functions needed by prelude deps (sel_Real etc) even if not otherwise used
	for n := range need {
		for _, d := range prelude[n].Deps {
			if _, isP := prelude[d]; !isP {
				if _, ok := st.funcs[d]; !ok && strings.HasPrefix(d, "sel_") {
					st.funcs[d] = "(Int Int) " + strings.TrimPrefix(d, "sel_")
				}
				if _, ok := st.funcs[d]; !ok && strings.HasPrefix(d, "fnret_") {
					st.funcs[d] = "(Int Int) " + strings.TrimPrefix(d, "fnret_")
				}
				if _, ok := st.funcs[d]; !ok && d == "fld_Snapshot_Date__Int" {
					st.funcs[d] = "(Ref) Int"
					st.sorts[SRef] = true
				}
			}
		}
	}
	if o.anl {
		st.funcs["umul_Real"] = "(Real Real) Real"
		st.funcs["udiv_Real"] = "(Real Real) Real"
	}
	for _, n := range sortedKeys(st.funcs) {
		if _, isP := prelude[n]; isP {
			continue
		}
		sig := st.funcs[n]
		fmt.Fprintf(&sb, "(declare-fun %s %s)\n", n, sig)
	}
	for _, n := range sortedKeys(st.consts) {
		fmt.Fprintf(&sb, "(declare-fun %s () %s)\n", n, st.consts[n])
	}
	var pn []string
	for n := range need {
		pn = append(pn, n)
	}
	// dependencies first
	sort.Slice(pn, func(i, j int) bool {
		di, dj := depDepth(pn[i]), depDepth(pn[j])
		if di != dj {
			return di < dj
		}
		return pn[i] < pn[j]
	})
	needUmul, needUdiv := false, false
	for _, n := range pn {
		if a, ok := anlAx[n]; ok {
			sb.WriteString(prelude[n].Decl + "\n(assert " + a.String() + ")\n")
			continue
		}
		if o.anl {
			if t, ch := abstractSMTText(prelude[n].SMT); ch {
				needUmul = needUmul || strings.Contains(t, "(umul_Real ")
				needUdiv = needUdiv || strings.Contains(t, "(udiv_Real ")
				sb.WriteString(strings.TrimSpace(t) + "\n")
				continue
			}
		}
		sb.WriteString(strings.TrimSpace(prelude[n].SMT) + "\n")
	}
	_, _ = needUmul, needUdiv
	if o.anl {
		for _, tg := range []string{"Real", "Int"} {
			if _, ok := st.funcs["umul_"+tg]; ok {
				fmt.Fprintf(&sb, "(assert (forall ((a %s) (b %s)) (! (= (umul_%s a b) (umul_%s b a)) :pattern ((umul_%s a b)))))\n", tg, tg, tg, tg, tg)
			}
		}
	}
	for _, h := range hyps {
		fmt.Fprintf(&sb, "(assert %s)\n", h.String())
	}
	fmt.Fprintf(&sb, "(assert (not %s))\n(check-sat)\n(get-model)\n", o.Goal.String())
	return sb.String()
}

func depDepth(n string) int {
	p, ok := prelude[n]
	if !ok {
		return 0
	}
	d := 0
	for _, x := range p.Deps {
		if x == n {
			continue
		}
		if dd := depDepth(x) + 1; dd > d {
			d = dd
		}
	}
	return d
}

func usedLemmaFuncs(hyps []*Term, goal *Term) []string { return nil }

type solverRes struct {
	solver string
	result string
	out    string
	secs   float64
}

func runSolver(ctx context.Context, solver, file string, timeout time.Duration) solverRes {
	var cmd *exec.Cmd
	secs := int(timeout.Seconds())
	if secs < 1 {
		secs = 1
	}
	switch solver {
	case "z3":
		cmd = exec.CommandContext(ctx, "z3", fmt.Sprintf("-T:%d", secs), file)
	case "z3-new":
		cmd = exec.CommandContext(ctx, "z3-new", fmt.Sprintf("-T:%d", secs), file)
	case "z3-new-ematch":
		// pattern-driven instantiation only: every quantifier the generator emits carries patterns
		cmd = exec.CommandContext(ctx, "z3-new", fmt.Sprintf("-T:%d", secs), "smt.auto_config=false", "smt.mbqi=false", file)
	case "cvc5":
		// cvc5 reserves sqrt: give it the same problem with the uninterpreted symbol renamed
		if b, err := os.ReadFile(file); err == nil && bytes.Contains(b, []byte("(declare-fun sqrt ")) {
			b = bytes.ReplaceAll(b, []byte("(declare-fun sqrt "), []byte("(declare-fun sqrt_r "))
			b = bytes.ReplaceAll(b, []byte("(sqrt "), []byte("(sqrt_r "))
			file = file + ".cvc5.smt2"
			os.WriteFile(file, b, 0o644)
		}
		cmd = exec.CommandContext(ctx, "cvc5", fmt.Sprintf("--tlimit=%d", secs*1000), file)
	}
	var out bytes.Buffer
	cmd.Stdout = &out
	cmd.Stderr = &out
	t0 := time.Now()
	_ = cmd.Run()
	el := time.Since(t0).Seconds()
	first := ""
	for _, l := range strings.Split(out.String(), "\n") {
		l = strings.TrimSpace(l)
		if l == "" || strings.HasPrefix(l, "WARNING") {
			continue
		}
		first = l
		break
	}
	res := "unknown"
	switch {
	case first == "unsat":
		res = "unsat"
	case first == "sat":
		res = "sat"
	case first == "timeout" || strings.Contains(first, "interrupted") || ctx.Err() != nil:
		res = "timeout"
	case strings.HasPrefix(first, "(error") || strings.Contains(first, "rror"):
		res = "error"
	}
	return solverRes{solver: solver, result: res, out: out.String(), secs: el}
}

// discharge one obligation: quick attempt with z3-new, then race of all three
func discharge(o *Obligation, dir string, timeout time.Duration, idx int) {
	if o.Static {
		return
	}
	if o.ShortTimeout {
		timeout = 4 * time.Second
	}
	fname := filepath.Join(dir, fmt.Sprintf("o%04d.smt2", idx))
	txt := o.smtSliced
	if len(txt) > 512*1024 {
		o.Result = "too-large"
		return
	}
	os.WriteFile(fname, []byte(txt), 0o644)
	t0 := time.Now()
	// quantifier-free relaxation first: fewer hypotheses, so unsat is sound; sat gives a candidate model for replay
	if o.Kind != "cover" && !hasQuant(o.Goal) {
		qf := o.smtQF
		if qf != "" && qf != txt && !usesPreludeRec(qf) {
			fq := fname + ".qf.smt2"
			os.WriteFile(fq, []byte(qf), 0o644)
			r := runSolver(context.Background(), "z3-new", fq, rung(2))
			if r.result == "unsat" {
				o.Result, o.Solver, o.Time = "unsat", "z3-new(qf)", r.secs
				return
			}
			if r.result == "sat" {
				o.CandModel = modelOf(r.out)
			}
		}
	}
	if o.smtLin != "" && o.Kind != "cover" {
		fl := fname + ".lin.smt2"
		os.WriteFile(fl, []byte(o.smtLin), 0o644)
		if r := runSolver(context.Background(), "z3-new", fl, rung(3)); r.result == "unsat" {
			o.Result, o.Solver, o.Time = "unsat", "z3-new(linear)", time.Since(t0).Seconds()
			return
		}
	}
	if o.smtANL != "" && o.Kind != "cover" {
		fa := fname + ".anl.smt2"
		os.WriteFile(fa, []byte(o.smtANL), 0o644)
		if r := runSolver(context.Background(), "z3-new", fa, rung(4)); r.result == "unsat" {
			o.Result, o.Solver, o.Time = "unsat", "z3-new(nl-abstracted)", time.Since(t0).Seconds()
			return
		}
		if r := runSolver(context.Background(), "z3-new-ematch", fa, rung(4)); r.result == "unsat" {
			o.Result, o.Solver, o.Time = "unsat", "z3-new-ematch(nl-abstracted)", time.Since(t0).Seconds()
			return
		}
	}
	quick := runSolver(context.Background(), "z3-new", fname, rung(3))
	if quick.result == "unsat" || quick.result == "sat" {
		o.Result, o.Solver, o.Time = quick.result, quick.solver, quick.secs
		if quick.result == "sat" {
			o.Model = modelOf(quick.out)
		}
		if quick.result == "unsat" || o.Kind == "cover" {
			return
		}
		// sat on a sliced problem is a genuine countermodel of the sliced hypotheses; since slicing only drops
		// hypotheses unrelated to the goal, re-check unsliced to be safe
		renderMu.Lock()
		full := smtFile(o, false)
		renderMu.Unlock()
		if full != txt {
			f2 := fname + ".full.smt2"
			os.WriteFile(f2, []byte(full), 0o644)
			r2 := runSolver(context.Background(), "z3-new", f2, timeout)
			o.Result, o.Solver, o.Time = r2.result, r2.solver, r2.secs+quick.secs
			if r2.result == "sat" {
				o.Model = modelOf(r2.out)
			}
			if r2.result == "unsat" || r2.result == "sat" {
				return
			}
		} else {
			return
		}
	}
	if quick.result == "error" {
		o.Detail = firstLines(quick.out, 3)
	}
	// the sliced problem was not decided: race the solvers on the sliced AND on the unsliced text
	// (hypotheses unrelated to the goal can still be jointly contradictory, e.g. a dead path)
	renderMu.Lock()
	fullTxt := smtFile(o, false)
	renderMu.Unlock()
	fullName := fname
	if fullTxt != txt && len(fullTxt) < 1024*1024 {
		fullName = fname + ".full.smt2"
		os.WriteFile(fullName, []byte(fullTxt), 0o644)
		if r := runSolver(context.Background(), "z3-new", fullName, rung(3)); r.result == "unsat" {
			o.Result, o.Solver, o.Time = "unsat", "z3-new(full)", time.Since(t0).Seconds()
			return
		}
	}
	if rungScale > 1 {
		// second pass: the ladder only (the race has already been run once on this obligation)
		o.Result = "timeout"
		return
	}
	ctx, cancel := context.WithCancel(context.Background())
	defer cancel()
	ch := make(chan solverRes, 4)
	solvers := []string{"z3", "z3-new", "cvc5", "z3-new-ematch"}
	for _, s := range solvers {
		go func(s string) { ch <- runSolver(ctx, s, fname, timeout) }(s)
	}
	best := solverRes{result: "unknown"}
	for range solvers {
		r := <-ch
		if r.result == "unsat" {
			best = r
			break
		}
		if r.result == "sat" && best.result != "sat" {
			best = r
		} else if best.result == "unknown" && r.result != "error" {
			best = r
		}
		if r.result == "error" && o.Detail == "" {
			o.Detail = r.solver + ": " + firstLines(r.out, 2)
		}
	}
	cancel()
	o.Result, o.Solver = best.result, best.solver
	o.Time = time.Since(t0).Seconds()
	if best.result == "sat" {
		o.Model = modelOf(best.out)
	}
}

// the relaxation is only used when no recursive spec function is involved (their axioms are quantified)
func usesPreludeRec(txt string) bool {
	return strings.Contains(txt, "(declare-fun psum") || strings.Contains(txt, "(declare-fun emaS") || strings.Contains(txt, "(declare-fun rmaS") || strings.Contains(txt, "(declare-fun since_") || strings.Contains(txt, "(declare-fun fcount") || strings.Contains(txt, "(declare-fun wcount") || strings.Contains(txt, "(declare-fun wmaxS") || strings.Contains(txt, "(declare-fun wminS") || strings.Contains(txt, "(declare-fun cnt") || strings.Contains(txt, "(declare-fun nlast") || strings.Contains(txt, "(declare-fun dlast")
}

func firstLines(s string, n int) string {
	ls := strings.Split(s, "\n")
	if len(ls) > n {
		ls = ls[:n]
	}
	return strings.Join(ls, " | ")
}

func modelOf(out string) string {
	i := strings.Index(out, "\n")
	if i < 0 {
		return ""
	}
	m := out[i+1:]
	if len(m) > 6000 {
		m = m[:6000] + "…"
	}
	return m
}

var renderMu sync.Mutex

func dischargeAll(obls []*Obligation, dir string, timeout time.Duration, par int) {
	// render every SMT text sequentially: Term.String caches and terms are shared between obligations
	for _, o := range obls {
		if o.Static {
			continue
		}
		o.smtSliced = smtFile(o, true)
		if o.Kind != "cover" && !hasQuant(o.Goal) {
			o.smtQF = smtFileQ(o, true, true)
		}
		if o.Kind != "cover" {
			o.smtLin = smtFileLinear(o)
			o.smtANL = smtFileAbstractNL(o)
		}
	}
	var wg sync.WaitGroup
	sem := make(chan struct{}, par)
	for i, o := range obls {
		if o.Static {
			continue
		}
		wg.Add(1)
		sem <- struct{}{}
		go func(i int, o *Obligation) {
			defer wg.Done()
			defer func() { <-sem }()
			discharge(o, dir, timeout, i)
		}(i, o)
	}
	wg.Wait()
	// second chance, one obligation at a time: solver time limits are wall-clock, and with 16 obligations in flight (each
	// racing up to four solvers at the end of the ladder) a rung that needs 3 s alone can miss its limit. An
	// obligation left undecided is tried again alone with every rung given four times as long; a result of sat is
	// never retried.
	undecided := 0
	for _, o := range obls {
		if !o.Static && o.Kind != "cover" && (o.Result == "timeout" || o.Result == "unknown") && !noSecondPass[o.Name] {
			undecided++
		}
	}
	if undecided == 0 || undecided > 2 {
		// scheduling noise leaves one or two obligations undecided, not a handful: a larger number is a real failure
		// (or a real change) and is reported as it stands
		return
	}
	rungScale = 4
	defer func() { rungScale = 1 }()
	retried := 0
	for i, o := range obls {
		if o.Static || o.Kind == "cover" {
			continue
		}
		if (o.Result == "timeout" || o.Result == "unknown") && retried < 4 && !noSecondPass[o.Name] {
			// more than a handful of undecided obligations is not scheduling noise: only the first four are retried
			retried++
			saved := *o
			discharge(o, dir, timeout, i)
			if o.Result == "unsat" {
				o.Solver += " (second pass)"
			} else {
				*o = saved
			}
		}
	}
}

// time limit of a ladder rung (seconds), scaled in the second pass
var rungScale = 1

// obligations that are not retried (listed known findings)
var noSecondPass = map[string]bool{}

func rung(secs int) time.Duration { return time.Duration(secs*rungScale) * time.Second }
