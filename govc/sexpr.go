package main

import "strings"

// a minimal s-expression reader/printer, used to apply the nonlinear abstraction (solve.go abstractNL) to the
// hand-written SMT text of the prelude spec functions as well

type sx struct {
	atom string
	list []*sx
	isL  bool
}

func parseSexprs(s string) []*sx {
	var out []*sx
	i := 0
	var parse func() *sx
	skip := func() {
		for i < len(s) {
			if s[i] == ';' {
				for i < len(s) && s[i] != '\n' {
					i++
				}
			} else if s[i] == ' ' || s[i] == '\n' || s[i] == '\t' || s[i] == '\r' {
				i++
			} else {
				break
			}
		}
	}
	parse = func() *sx {
		skip()
		if i >= len(s) {
			return nil
		}
		if s[i] == '(' {
			i++
			n := &sx{isL: true}
			for {
				skip()
				if i >= len(s) {
					return n
				}
				if s[i] == ')' {
					i++
					return n
				}
				n.list = append(n.list, parse())
			}
		}
		j := i
		if s[i] == '|' {
			i++
			for i < len(s) && s[i] != '|' {
				i++
			}
			i++
		} else if s[i] == '"' {
			i++
			for i < len(s) && s[i] != '"' {
				i++
			}
			i++
		} else {
			for i < len(s) && !strings.ContainsRune(" \n\t\r()", rune(s[i])) {
				i++
			}
		}
		return &sx{atom: s[j:i]}
	}
	for {
		skip()
		if i >= len(s) {
			break
		}
		out = append(out, parse())
	}
	return out
}

func (x *sx) String() string {
	if !x.isL {
		return x.atom
	}
	var sb strings.Builder
	sb.WriteString("(")
	for i, c := range x.list {
		if i > 0 {
			sb.WriteString(" ")
		}
		sb.WriteString(c.String())
	}
	sb.WriteString(")")
	return sb.String()
}

func sxNumeral(x *sx) bool {
	if !x.isL {
		if x.atom == "" {
			return false
		}
		c := x.atom[0]
		return c >= '0' && c <= '9'
	}
	if len(x.list) == 2 && !x.list[0].isL && (x.list[0].atom == "to_real" || x.list[0].atom == "-") {
		return sxNumeral(x.list[1])
	}
	if len(x.list) == 3 && !x.list[0].isL && x.list[0].atom == "/" {
		return sxNumeral(x.list[1]) && sxNumeral(x.list[2])
	}
	return false
}

// abstractSMTText rewrites (* a b) with two non-numeral operands to (umul_Real a b) and (/ a b) with a non-numeral
// divisor to (udiv_Real a b). The prelude functions are all real-valued where they multiply or divide.
func abstractSMTText(text string) (string, bool) {
	changed := false
	var rw func(x *sx) *sx
	rw = func(x *sx) *sx {
		if !x.isL {
			return x
		}
		n := &sx{isL: true}
		for _, c := range x.list {
			n.list = append(n.list, rw(c))
		}
		if len(n.list) == 3 && !n.list[0].isL {
			switch n.list[0].atom {
			case "*":
				if !sxNumeral(n.list[1]) && !sxNumeral(n.list[2]) {
					n.list[0] = &sx{atom: "umul_Real"}
					changed = true
				}
			case "/":
				if !sxNumeral(n.list[2]) {
					n.list[0] = &sx{atom: "udiv_Real"}
					changed = true
				}
			}
		}
		return n
	}
	var sb strings.Builder
	for _, x := range parseSexprs(text) {
		sb.WriteString(rw(x).String() + "\n")
	}
	return sb.String(), changed
}
