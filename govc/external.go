package main

import (
	"fmt"
	"go/ast"
	"go/constant"
	"go/types"
	"math/big"
	"strings"
	"time"
)

// assumed contracts of functions outside the module (each use is recorded in the notes => evidence)
func (e *Engine) callExternal(fn *types.Func, recv Value, args []Value, cx *ast.CallExpr, st *State) Value {
	pkg := ""
	if fn.Pkg() != nil {
		pkg = fn.Pkg().Path()
	}
	name := fn.Name()
	full := pkg + "." + name
	if sig := fn.Type().(*types.Signature); sig.Recv() != nil {
		rt := sig.Recv().Type()
		if p, ok := rt.(*types.Pointer); ok {
			rt = p.Elem()
		}
		if n, ok := rt.(*types.Named); ok {
			full = pkg + "." + n.Obj().Name() + "." + name
		}
	}
	f64 := types.Typ[types.Float64]
	real := func(i int) *Term { return toReal(term(args[i])) }
	zero := mkRat(new(big.Rat))
	switch full {
	case "math.Sqrt":
		e.notes["assumed external: math.Sqrt(x) = sqrt(x) with sqrt(x)>=0 && sqrt(x)*sqrt(x)==x for x>=0 (real arithmetic)"] = true
		return VTerm{T: mkApp("sqrt", SReal, real(0)), Typ: f64}
	case "math.Abs":
		x := real(0)
		return VTerm{T: mkIte(mkCmp(">=", x, zero), x, mkNeg(x)), Typ: f64}
	case "math.Max":
		return VTerm{T: mkMax(real(0), real(1)), Typ: f64}
	case "math.Min":
		return VTerm{T: mkMin(real(0), real(1)), Typ: f64}
	case "math.Pow":
		x, y := real(0), real(1)
		if x.Op == "real" && y.Op == "real" && y.Rat.IsInt() && y.Rat.Num().IsInt64() && x.Rat.Sign() != 0 {
			// constant folding: rational base, small integer exponent
			if n := y.Rat.Num().Int64(); n >= -12 && n <= 12 {
				r := big.NewRat(1, 1)
				for i := int64(0); i < n || i < -n; i++ {
					r.Mul(r, x.Rat)
				}
				if n < 0 {
					r.Inv(r)
				}
				return VTerm{T: mkRat(r), Typ: f64}
			}
		}
		e.notes["assumed external: math.Pow(x,y) = powr(x,y) with powr(x,2)=x*x, powr(x,-1)=1/x, powr(x,1)=x, other exponents uninterpreted"] = true
		return VTerm{T: mkApp("powr", SReal, x, y), Typ: f64}
	case "math.Floor":
		return VTerm{T: toReal(&Term{Op: "to_int", Args: []*Term{real(0)}, Sort: SInt}), Typ: f64}
	case "math.Round":
		e.notes["assumed external: math.Round(x) = floor(x+1/2) for x>=0, -floor(-x+1/2) otherwise"] = true
		x := real(0)
		half := mkRat(big.NewRat(1, 2))
		up := toReal(&Term{Op: "to_int", Args: []*Term{mkArith("+", x, half)}, Sort: SInt})
		dn := mkNeg(toReal(&Term{Op: "to_int", Args: []*Term{mkArith("+", mkNeg(x), half)}, Sort: SInt}))
		return VTerm{T: mkIte(mkCmp(">=", x, zero), up, dn), Typ: f64}
	case "time.Time.Equal":
		return VTerm{T: mkEq(term(recv), term(args[0])), Typ: types.Typ[types.Bool]}
	case "time.Time.After":
		return VTerm{T: mkCmp(">", term(recv), term(args[0])), Typ: types.Typ[types.Bool]}
	case "time.Time.Before":
		return VTerm{T: mkCmp("<", term(recv), term(args[0])), Typ: types.Typ[types.Bool]}
	case "time.Time.IsZero":
		return VTerm{T: mkEq(term(recv), mkConst("time_zero", SInt)), Typ: types.Typ[types.Bool]}
	case "time.Time.AddDate":
		e.notes["assumed external: time.Time.AddDate(0,0,d) adds d*86400 s (UTC whole days)"] = true
		y, m, d := term(args[0]), term(args[1]), term(args[2])
		if y.Op == "int" && y.Int.Sign() == 0 && m.Op == "int" && m.Int.Sign() == 0 {
			return VTerm{T: mkArith("+", term(recv), mkArith("*", mkInt(86400), d)), Typ: recv.(VTerm).Typ}
		}
		return VTerm{T: mkApp("time_adddate", SInt, term(recv), y, m, d), Typ: recv.(VTerm).Typ}
	case "log/slog.Error", "log/slog.Info", "log/slog.Warn", "log/slog.Debug", "log.Printf", "log.Println", "log.Print",
		"log/slog.Logger.Error", "log/slog.Logger.Info", "log/slog.Logger.Warn", "log/slog.Logger.Debug":
		return VTuple{}
	case "database/sql.Stmt.Exec":
		// assumed external: each Exec of a prepared statement performs one database write, in call order; logged as
		// nexec(stmt), execarg(stmt, i, k) so that contracts can say which writes have happened at return
		e.notes["assumed external: database/sql (*Stmt).Exec performs its write synchronously, once per call (logged as nexec/execarg)"] = true
		rt := recv.(VTerm).T
		key := "nexec:" + rt.String()
		n := st.getMem(key, mkApp("nexec0", SInt, rt))
		if sl, ok := args[0].(VSlice); ok {
			_ = sl
		}
		for i, a := range e.lastAnyArgs {
			if t, ok := a.(VTerm); ok {
				st.assume(mkEq(mkApp(fmt.Sprintf("execarg%d_%s", i, sortTag(t.T.Sort)), t.T.Sort, rt, n), t.T))
			}
		}
		st.mem[key] = mkArith("+", n, mkInt(1))
		return VTuple{VTerm{T: e.fresh("sqlres", SRef), Typ: fn.Type().(*types.Signature).Results().At(0).Type()}, VTerm{T: e.fresh("err", SRef), Typ: fn.Type().(*types.Signature).Results().At(1).Type()}}
	case "database/sql.Stmt.Query", "database/sql.Stmt.QueryRow":
		// assumed external: a prepared statement run with given arguments yields a result set sqlrs(stmt, args...):
		// sql_nrows(rs) rows whose column i of row k is sql_col_<sort>(rs, k, i); the cursor starts before the first row
		e.notes["assumed external: database/sql (*Stmt).Query/QueryRow yield the result set sql_rs(stmt, args...) of a conforming driver; Rows.Next advances a cursor over its sql_nrows rows; Scan copies the columns of the current row into its destinations when it returns nil"] = true
		rsArgs := []*Term{recv.(VTerm).T}
		name := "sql_rs"
		for _, a := range e.lastAnyArgs {
			t, ok := a.(VTerm)
			if !ok {
				unsup("sql query argument %T at %s", a, e.src(cx))
			}
			rsArgs = append(rsArgs, t.T)
			name += "_" + sortTag(t.T.Sort)
		}
		rs := mkApp(name, SRef, rsArgs...)
		st.assume(mkCmp(">=", mkApp("sql_nrows", SInt, rs), mkInt(0)))
		sig := fn.Type().(*types.Signature)
		rows := e.fresh("sqlrows", SRef)
		st.assume(mkNot(mkEq(rows, mkConst("nil", SRef))))
		e.localRefs[rows.String()] = true
		st.mem["sqlrs:"+rows.String()] = rs
		st.mem["sqlcur:"+rows.String()] = mkInt(0)
		rk := "sql_Stmt_Query"
		if full == "database/sql.Stmt.QueryRow" {
			rk = "sql_Stmt_QueryRow"
			v := VTerm{T: rows, Typ: sig.Results().At(0).Type()}
			e.callRes[rk] = append(e.callRes[rk], v)
			return v
		}
		v := VTuple{VTerm{T: rows, Typ: sig.Results().At(0).Type()}, VTerm{T: e.fresh("err", SRef), Typ: sig.Results().At(1).Type()}}
		e.callRes[rk] = append(e.callRes[rk], v)
		return v
	case "database/sql.Rows.Next":
		rt := recv.(VTerm).T
		rs := st.getMem("sqlrs:"+rt.String(), mkApp("sql_rs0", SRef, rt))
		cur := st.getMem("sqlcur:"+rt.String(), mkApp("sql_cur0", SInt, rt))
		// a closed result set yields no further rows
		closed := st.getMem("sqlclosed:"+rt.String(), tFalse)
		more := mkAnd(mkCmp("<", cur, mkApp("sql_nrows", SInt, rs)), mkNot(closed))
		st.mem["sqlcur:"+rt.String()] = mkIte(more, mkArith("+", cur, mkInt(1)), cur)
		return VTerm{T: more, Typ: types.Typ[types.Bool]}
	case "reflect.Value.Kind":
		return VTerm{T: mkApp("reflect_kind", SInt, term(recv)), Typ: fn.Type().(*types.Signature).Results().At(0).Type()}
	case "reflect.Value.Type":
		return VTerm{T: mkApp("reflect_type", SRef, term(recv)), Typ: fn.Type().(*types.Signature).Results().At(0).Type()}
	case "reflect.Type.String", "reflect.rtype.String":
		return VTerm{T: mkApp("reflect_typestr", SStr, term(recv)), Typ: types.Typ[types.String]}
	case "reflect.Value.Interface":
		// the dynamic type of v.Interface() is the type v.Type() names
		r := mkApp("reflect_iface", SRef, term(recv))
		ts := mkApp("reflect_typestr", SStr, mkApp("reflect_type", SRef, term(recv)))
		st.assume(mkImplies(mkEq(ts, mkConst("str_"+sanitize("time.Time"), SStr)), mkApp("dyn_is_"+sanitize("time.Time"), SBool, r)))
		// ... and the time it holds is the value's time payload
		tv := st.getMem("rval_Time:"+term(recv).String(), mkApp("rval_Time", SInt, term(recv)))
		st.assume(mkEq(mkApp("dyn_as_"+sanitize("time.Time")+"__Int", SInt, r), tv))
		return VTerm{T: r, Typ: fn.Type().(*types.Signature).Results().At(0).Type()}
	case "reflect.ValueOf":
		// a fresh reflect.Value holding the argument (only time values are related to their payload)
		r := e.fresh("rvalue", SRef)
		if a, ok := args[0].(VTerm); ok && isTimeType(a.Typ) {
			st.mem["rval_Time:"+r.String()] = a.T
		}
		return VTerm{T: r, Typ: fn.Type().(*types.Signature).Results().At(0).Type()}
	case "reflect.Value.Set":
		if a, ok := args[0].(VTerm); ok {
			st.mem["rval_Time:"+term(recv).String()] = st.getMem("rval_Time:"+a.T.String(), mkApp("rval_Time", SInt, a.T))
		}
		return VTuple{}
	case "time.Parse":
		// assumed round trip: parsing, with the same layout, what Format produced for an instant that the layout can
		// express (whole days for "2006-01-02") returns that instant and no error
		e.notes["assumed external: time.Parse(layout, t.Format(layout)) == t for instants the layout can express"] = true
		sig := fn.Type().(*types.Signature)
		val := e.fresh("parsedtime", SInt)
		err := e.fresh("err", SRef)
		e.nfresh++
		x := mkVar(fmt.Sprintf("t$%d", e.nfresh), SInt)
		formatted := mkApp("str_TimeFormat", SStr, x, term(args[0]))
		st.assume(mkForall([]*Term{x}, mkImplies(mkEq(term(args[1]), formatted), mkAnd(mkEq(err, mkConst("nil", SRef)), mkEq(val, x))), [][]*Term{{formatted}}))
		return VTuple{VTerm{T: val, Typ: sig.Results().At(0).Type()}, VTerm{T: err, Typ: sig.Results().At(1).Type()}}
	case "time.Time.Format":
		return VTerm{T: mkApp("str_TimeFormat", SStr, term(recv), term(args[0])), Typ: types.Typ[types.String]}
	case "reflect.Value.String", "reflect.Value.Bool", "reflect.Value.Int", "reflect.Value.Uint", "reflect.Value.Float":
		// the payload of a reflect.Value, one ghost per accessor (rval_Float(v), ...)
		rt := fn.Type().(*types.Signature).Results().At(0).Type()
		so := e.sortOf(rt)
		key := "rval_" + fn.Name() + ":" + term(recv).String()
		return e.wrap(st.getMem(key, mkApp("rval_"+fn.Name(), so, term(recv))), rt)
	case "reflect.Value.SetString", "reflect.Value.SetBool", "reflect.Value.SetInt", "reflect.Value.SetUint", "reflect.Value.SetFloat":
		st.mem["rval_"+strings.TrimPrefix(fn.Name(), "Set")+":"+term(recv).String()] = term(args[0])
		return VTuple{}
	case "strconv.FormatBool", "strconv.FormatInt", "strconv.FormatUint", "strconv.FormatFloat":
		// formatting as an uninterpreted function of all its arguments: str_FormatFloat(x, fmt, prec, bits), ...
		var ts []*Term
		for _, a := range args {
			ts = append(ts, term(a))
		}
		return VTerm{T: mkApp("str_"+fn.Name(), SStr, ts...), Typ: types.Typ[types.String]}
	case "strconv.ParseBool", "strconv.ParseInt", "strconv.ParseUint", "strconv.ParseFloat":
		// assumed round trip (documented for the strconv pairs): parsing what the matching formatter produced, with the
		// same base / bit size and, for floats, format 'g' with precision -1, returns that value and no error
		e.notes["assumed external: strconv round trips: ParseBool(FormatBool(b)) == b; ParseInt(FormatInt(v,10),10,bits) == v and ParseUint(FormatUint(v,10),10,bits) == v for v within bits; ParseFloat(FormatFloat(x,'g',-1,bits),bits) == x for x representable in bits"] = true
		sig := fn.Type().(*types.Signature)
		rt := sig.Results().At(0).Type()
		so := e.sortOf(rt)
		val := e.fresh("parsed", so)
		err := e.fresh("err", SRef)
		nilT := mkConst("nil", SRef)
		sv := term(args[0])
		e.nfresh++
		x := mkVar(fmt.Sprintf("x$%d", e.nfresh), so)
		var formatted *Term
		switch fn.Name() {
		case "ParseBool":
			formatted = mkApp("str_FormatBool", SStr, x)
		case "ParseInt":
			formatted = mkApp("str_FormatInt", SStr, x, term(args[1]))
		case "ParseUint":
			formatted = mkApp("str_FormatUint", SStr, x, term(args[1]))
		case "ParseFloat":
			formatted = mkApp("str_FormatFloat", SStr, x, mkInt('g'), mkInt(-1), term(args[1]))
		}
		st.assume(mkForall([]*Term{x}, mkImplies(mkEq(sv, formatted), mkAnd(mkEq(err, nilT), mkEq(val, x))), [][]*Term{{formatted}}))
		return VTuple{e.wrap(val, rt), VTerm{T: err, Typ: sig.Results().At(1).Type()}}
	case "io.Writer.Write":
		// ghost log of what has been written to a writer: nwr(w) writes so far; write i delivered the byte slice
		// (wlog_arr(w,i), wlog_len(w,i)); a failed write is logged too (the caller stops on it)
		if p, ok := args[0].(VSlice); ok && p.Arr != nil {
			w := term(recv)
			n := st.getMem("nwr:"+w.String(), mkApp("nwr0", SInt, w))
			st.assume(mkEq(mkApp("wlog_len", SInt, w, n), p.Len))
			st.assume(mkEq(mkApp("wlog_arr", p.Arr.Sort, w, n), p.Arr))
			st.mem["nwr:"+w.String()] = mkArith("+", n, mkInt(1))
			sig := fn.Type().(*types.Signature)
			return VTuple{VTerm{T: e.fresh("nwritten", SInt), Typ: sig.Results().At(0).Type()}, VTerm{T: e.fresh("err", SRef), Typ: sig.Results().At(1).Type()}}
		}
	case "encoding/json.Marshal":
		// the encoding of a value as an uninterpreted function of the value
		if v, ok := args[0].(VTerm); ok {
			sig := fn.Type().(*types.Signature)
			sl := sig.Results().At(0).Type().Underlying().(*types.Slice)
			tag := sortTag(v.T.Sort)
			enc := VSlice{Arr: mkApp("jsonenc_arr_"+tag, arraySort(SInt, SInt), v.T), Len: mkApp("jsonenc_len_"+tag, SInt, v.T), Elem: sl.Elem()}
			st.assume(mkCmp(">=", enc.Len, mkInt(0)))
			return VTuple{enc, VTerm{T: e.fresh("err", SRef), Typ: sig.Results().At(1).Type()}}
		}
	case "encoding/csv.NewWriter":
		// documented defaults of the writer's dialect: ',' separator, "\n" line ends (the reader's defaults mirror them)
		r := e.fresh("csvwriter", SRef)
		st.assume(mkNot(mkEq(r, mkConst("nil", SRef))))
		e.localRefs[r.String()] = true
		st.mem["fld:"+r.String()+".Comma"] = mkInt(',')
		st.mem["fld:"+r.String()+".UseCRLF"] = tFalse
		return VTerm{T: r, Typ: fn.Type().(*types.Signature).Results().At(0).Type()}
	case "encoding/csv.Writer.Write":
		// buffered: what was written is pending until the next Flush
		st.mem["csvpending:"+term(recv).String()] = tTrue
		return VTerm{T: e.fresh("err", SRef), Typ: fn.Type().(*types.Signature).Results().At(0).Type()}
	case "encoding/csv.Writer.Flush":
		st.mem["csvpending:"+term(recv).String()] = tFalse
		return VTuple{}
	case "encoding/csv.Writer.Error":
		// Error reports what Write and Flush have met so far: asked while records are still pending, it cannot know
		// whether they will reach the underlying writer (ghost csverrfinal(w): nothing was pending when it was asked)
		st.mem["csverrfinal:"+term(recv).String()] = mkNot(st.getMem("csvpending:"+term(recv).String(), tFalse))
		return VTerm{T: e.fresh("err", SRef), Typ: fn.Type().(*types.Signature).Results().At(0).Type()}
	case "database/sql.Rows.Close":
		st.mem["sqlclosed:"+recv.(VTerm).T.String()] = tTrue
		return VTerm{T: e.fresh("err", SRef), Typ: fn.Type().(*types.Signature).Results().At(0).Type()}
	case "database/sql.Rows.Scan", "database/sql.Row.Scan":
		rt := recv.(VTerm).T
		rs := st.getMem("sqlrs:"+rt.String(), mkApp("sql_rs0", SRef, rt))
		row := mkArith("-", st.getMem("sqlcur:"+rt.String(), mkApp("sql_cur0", SInt, rt)), mkInt(1))
		var err *Term
		nilT := mkConst("nil", SRef)
		if full == "database/sql.Row.Scan" {
			// QueryRow(...).Scan: sql.ErrNoRows exactly when the result set is empty; otherwise the first row
			row = mkInt(0)
			err = e.fresh("err", SRef)
			norows := term(e.globalVar(e.pkgVar("database/sql", "ErrNoRows")))
			st.assume(mkEq(mkEq(err, norows), mkEq(mkApp("sql_nrows", SInt, rs), mkInt(0))))
			st.assume(mkNot(mkEq(norows, nilT)))
			st.assume(mkEq(mkEq(err, nilT), mkAnd(mkCmp(">", mkApp("sql_nrows", SInt, rs), mkInt(0)), mkEq(mkApp("sql_scanerr", SRef, rs, row), nilT))))
		} else {
			err = mkApp("sql_scanerr", SRef, rs, row)
		}
		for i, a := range e.lastAnyArgs {
			switch d := a.(type) {
			case VAddr:
				nv := e.freshValue(d.Obj.Name(), d.Obj.Type(), st)
				if t, ok := nv.(VTerm); ok {
					st.assume(mkImplies(mkEq(err, nilT), mkEq(t.T, mkApp("sql_col_"+sortTag(t.T.Sort), t.T.Sort, rs, row, mkInt(int64(i))))))
				}
				st.vars[d.Obj] = nv
			case VFieldAddr:
				so := e.sortOf(d.Typ)
				nv := e.fresh("scan."+d.Field, so)
				st.assume(mkImplies(mkEq(err, nilT), mkEq(nv, mkApp("sql_col_"+sortTag(so), so, rs, row, mkInt(int64(i))))))
				e.writeField(st, d.Base, d.Field, VTerm{T: nv, Typ: d.Typ}, e.src(cx))
			default:
				unsup("sql Scan destination %T at %s", a, e.src(cx))
			}
		}
		return VTerm{T: err, Typ: fn.Type().(*types.Signature).Results().At(0).Type()}
	case "time.Date":
		// whole-second UTC instants with constant fields: the unix time
		ok := len(args) == 8
		var f [7]int64
		for i := 0; ok && i < 7; i++ {
			t, isT := args[i].(VTerm)
			if !isT || t.T.Op != "int" || !t.T.Int.IsInt64() {
				ok = false
				break
			}
			f[i] = t.T.Int.Int64()
		}
		if ok {
			if id, isID := ast.Unparen(cx.Args[7]).(*ast.SelectorExpr); !isID || id.Sel.Name != "UTC" {
				ok = false
			}
		}
		if ok {
			u := time.Date(int(f[0]), time.Month(f[1]), int(f[2]), int(f[3]), int(f[4]), int(f[5]), int(f[6]), time.UTC).Unix()
			return VTerm{T: mkInt(u), Typ: fn.Type().(*types.Signature).Results().At(0).Type()}
		}
		return VTerm{T: e.fresh("date", SInt), Typ: fn.Type().(*types.Signature).Results().At(0).Type()}
	case "time.Sleep":
		return VTuple{}
	case "sync.WaitGroup.Add", "sync.WaitGroup.Done", "sync.WaitGroup.Wait":
		e.notes["assumed external: sync.WaitGroup used only to join; Wait returns after every Done"] = true
		return VTuple{}
	case "cmp.Compare":
		// assumed external: cmp.Compare(x, y) is -1, 0, +1 for x < y, x == y, x > y (NaN excluded: real arithmetic)
		x, y := term(args[0]), term(args[1])
		return VTerm{T: mkIte(mkCmp("<", x, y), mkInt(-1), mkIte(mkCmp(">", x, y), mkInt(1), mkInt(0))), Typ: types.Typ[types.Int]}
	case "slices.SortFunc":
		// assumed external: sorts in place into a permutation ordered by cmp (requires cmp to be a consistent ordering).
		// The comparator literal is executed symbolically on two arbitrary elements; its `lit#i ensures` clauses
		// (e.g. "negative iff a ranks before b") are obligations of the caller.
		sl, ok := args[0].(VSlice)
		cl, ok2 := args[1].(VClosure)
		if !ok || !ok2 {
			unsup("slices.SortFunc with non-literal comparator at %s", e.src(cx))
		}
		e.notes["assumed external: slices.SortFunc yields a permutation sorted by the comparator (whose order properties are proved as lit ensures obligations)"] = true
		a := e.wrap(e.fresh("cmp_a", e.elemSort(sl.Elem)), sl.Elem)
		b := e.wrap(e.fresh("cmp_b", e.elemSort(sl.Elem)), sl.Elem)
		tmp := st.clone()
		ret := e.inlineLit(cl.Lit, []Value{a, b}, tmp)
		ord := e.litOrdinal(cl.Lit)
		pnames := []string{}
		for _, f := range cl.Lit.Type.Params.List {
			for _, n := range f.Names {
				pnames = append(pnames, n.Name)
			}
		}
		var exported []*Clause
		for j, c := range e.litClauses(cl.Lit, "ensures") {
			env := e.specEnvAt(tmp, cl.Lit.Body.Lbrace+1)
			n := map[string]Value{}
			for k, v := range env.names {
				n[k] = v
			}
			n["ret"] = ret
			if len(pnames) == 2 {
				n[pnames[0]], n[pnames[1]] = a, b
			}
			env.names = n
			e.assert(tmp, term(e.evalSpec(c.Expr, env)), fmt.Sprintf("lit#%d/ensures#%d", ord, j), c.Where, c.Tags)
			exported = append(exported, c)
		}
		// result: same length, every element comes from the input, adjacent elements ordered by the `lit#i sorted` relation
		narr := e.fresh("sorted.arr", sl.Arr.Sort)
		ns := VSlice{Arr: narr, Len: sl.Len, Elem: sl.Elem}
		e.nfresh += 2
		i := mkVar(fmt.Sprintf("i$%d", e.nfresh), SInt)
		j := mkVar(fmt.Sprintf("j$%d", e.nfresh-1), SInt)
		rng := func(x *Term) *Term { return mkAnd(mkCmp("<=", mkInt(0), x), mkCmp("<", x, sl.Len)) }
		perm := mkApp("sortperm", SInt, narr, i)
		inv := mkApp("sortinv", SInt, narr, i)
		st.assume(mkForall([]*Term{i}, mkImplies(rng(i), mkAnd(rng(perm), mkEq(mkSelect(narr, i), mkSelect(sl.Arr, perm)))), [][]*Term{{mkSelect(narr, i)}}))
		st.assume(mkForall([]*Term{i}, mkImplies(rng(i), mkAnd(rng(inv), mkEq(mkSelect(narr, inv), mkSelect(sl.Arr, i)))), [][]*Term{{mkSelect(sl.Arr, i)}}))
		for _, c := range e.litClauses(cl.Lit, "sorted") {
			env := e.specEnvAt(st, cl.Lit.Body.Lbrace+1)
			n := map[string]Value{}
			for k, v := range env.names {
				n[k] = v
			}
			if len(pnames) == 2 {
				n[pnames[0]] = e.wrap(mkSelect(narr, i), sl.Elem)
				n[pnames[1]] = e.wrap(mkSelect(narr, j), sl.Elem)
			}
			env.names = n
			st.assume(mkForall([]*Term{i, j}, mkImplies(mkAnd(rng(i), rng(j), mkCmp("<", i, j)), term(e.evalSpec(c.Expr, env))), [][]*Term{{mkSelect(narr, i), mkSelect(narr, j)}}))
		}
		e.assignTo(cx.Args[0], ns, st)
		return VTuple{}
	case "slices.Grow", "slices.Clip":
		// capacity only: the same elements, the same length (slices are values in this verifier)
		if sl, ok := args[0].(VSlice); ok {
			return sl
		}
		unsup("%s of a non-slice at %s", name, e.src(cx))
	case "slices.Max", "slices.Min":
		sl, ok := args[0].(VSlice)
		if !ok || sl.Len.Op != "int" || !sl.Len.Int.IsInt64() || sl.Len.Int.Int64() < 1 || sl.Len.Int.Int64() > 16 {
			unsup("slices.Max/Min of a slice of non-literal length at %s", e.src(cx))
		}
		acc := mkSelect(sl.Arr, mkInt(0))
		for i := int64(1); i < sl.Len.Int.Int64(); i++ {
			if name == "Max" {
				acc = mkMax(acc, mkSelect(sl.Arr, mkInt(i)))
			} else {
				acc = mkMin(acc, mkSelect(sl.Arr, mkInt(i)))
			}
		}
		return VTerm{T: acc, Typ: sl.Elem}
	case "strings.HasSuffix":
		e.notes["assumed external: strings.HasSuffix/TrimSuffix as uninterpreted functions with hassuffix(a,b) ==> trimsuffix(a,b) + b == a"] = true
		return VTerm{T: mkApp("str_hassuffix", SBool, term(args[0]), term(args[1])), Typ: types.Typ[types.Bool]}
	case "strings.TrimSuffix":
		e.notes["assumed external: strings.HasSuffix/TrimSuffix as uninterpreted functions with hassuffix(a,b) ==> trimsuffix(a,b) + b == a"] = true
		a, b := term(args[0]), term(args[1])
		r := mkApp("str_trimsuffix", SStr, a, b)
		st.assume(mkImplies(mkApp("str_hassuffix", SBool, a, b), mkEq(mkApp("str_concat", SStr, r, b), a)))
		return VTerm{T: r, Typ: types.Typ[types.String]}
	case "io/fs.DirEntry.Name":
		return VTerm{T: mkApp("direntry_name", SStr, term(recv)), Typ: types.Typ[types.String]}
	case "fmt.Sprintf", "fmt.Sprint", "time.Time.String":
		if full == "fmt.Sprintf" && len(cx.Args) >= 1 {
			// a constant format made of literal text and %s verbs over string arguments is a concatenation
			if tv, ok := e.info().Types[cx.Args[0]]; ok && tv.Value != nil && tv.Value.Kind() == constant.String {
				if t := e.sprintfConcat(constant.StringVal(tv.Value), e.lastAnyArgs); t != nil {
					return VTerm{T: t, Typ: types.Typ[types.String]}
				}
			}
		}
		return VTerm{T: e.fresh("str", SStr), Typ: types.Typ[types.String]}
	case "path/filepath.Clean":
		// paths handed to the file helpers are taken to be clean already (Clean is the identity on them)
		e.notes["assumed external: filepath.Clean is the identity on the paths used (they are clean already)"] = true
		return VTerm{T: term(args[0]), Typ: types.Typ[types.String]}
	case "path/filepath.Join":
		if sl, ok := args[0].(VSlice); ok && sl.Len.Op == "int" && sl.Len.Int.Int64() == 2 {
			e.notes["assumed external: filepath.Join(dir, file) as an uninterpreted pairing path_join(dir, file), injective in file for a fixed dir (file names without separators or dot segments)"] = true
			return VTerm{T: mkApp("path_join", SStr, mkSelect(sl.Arr, mkInt(0)), mkSelect(sl.Arr, mkInt(1))), Typ: types.Typ[types.String]}
		}
		return VTerm{T: e.fresh("str", SStr), Typ: types.Typ[types.String]}
	case "time.Now":
		now := VTerm{T: e.fresh("now", SInt), Typ: fn.Type().(*types.Signature).Results().At(0).Type()}
		e.callRes["time_Now"] = append(e.callRes["time_Now"], now)
		return now
	case "os.Exit":
		// the process ends here: nothing after it is reached on this path
		st.mem["@exited"] = tTrue
		return VTuple{}
	case "log.Logger.Println", "log.Logger.Printf", "log.Logger.Print":
		return VTuple{}
	case "errors.New", "fmt.Errorf":
		r := e.fresh("err", SRef)
		st.assume(mkNot(mkEq(r, mkConst("nil", SRef))))
		return VTerm{T: r, Typ: fn.Type().(*types.Signature).Results().At(0).Type()}
	}
	return e.defaultExternal(full, fn, recv, args, cx, st)
}

var externalPkgs = map[string]bool{"flag": true, "database/sql": true, "encoding/json": true, "encoding/csv": true, "net/http": true, "io": true, "os": true, "path/filepath": true, "path": true,
	"strings": true, "errors": true, "fmt": true, "time": true, "log/slog": true, "bufio": true, "io/fs": true, "strconv": true, "log": true, "reflect": true}

func (e *Engine) extCounter(st *State, kind string, ref *Term) *Term {
	return st.getMem(kind+":"+ref.String(), mkApp(kind+"0", SInt, ref))
}

// default assumed contract of a standard-library call: arbitrary results, no effect on the module's state except
// through pointers passed to it; refined for the decoders / readers whose progress and field counts matter
func (e *Engine) defaultExternal(full string, fn *types.Func, recv Value, args []Value, cx *ast.CallExpr, st *State) Value {
	pkg := ""
	if fn.Pkg() != nil {
		pkg = fn.Pkg().Path()
	}
	if !externalPkgs[pkg] {
		unsup("external function %s at %s", full, e.src(cx))
	}
	e.notes["assumed external (default contract: arbitrary results, effects only through pointer arguments): "+full] = true
	sig := fn.Type().(*types.Signature)
	var isig *types.Signature
	if tv, ok := e.info().Types[cx.Fun]; ok {
		isig, _ = tv.Type.(*types.Signature)
	}
	if isig == nil {
		isig = sig
	}
	// pointer arguments are filled in by the callee
	var oldTarget Value
	var targetObj types.Object
	for _, a := range append(append([]Value(nil), args...), e.lastAnyArgs...) {
		if ad, ok := a.(VAddr); ok {
			if oldTarget == nil {
				oldTarget, targetObj = st.vars[ad.Obj], ad.Obj
			}
			st.vars[ad.Obj] = e.freshValue(ad.Obj.Name(), ad.Obj.Type(), st)
		}
	}
	var results []Value
	for i := 0; i < isig.Results().Len(); i++ {
		rt := isig.Results().At(i).Type()
		v := e.freshValue("ext."+sanitize(fn.Name()), rt, st)
		if vt, ok := v.(VTerm); ok && vt.T.Sort == SRef && rt.String() != "error" {
			e.localRefs[vt.T.String()] = true
		}
		results = append(results, v)
	}
	nilT := mkConst("nil", SRef)
	errOf := func() *Term {
		for i := 0; i < isig.Results().Len(); i++ {
			if isig.Results().At(i).Type().String() == "error" {
				return term(results[i])
			}
		}
		return nil
	}
	switch full {
	case "encoding/json.Decoder.More":
		rt := recv.(VTerm).T
		st.assume(mkImplies(term(results[0]), mkCmp(">", e.extCounter(st, "extrem", rt), mkInt(0))))
	case "encoding/json.Decoder.Decode", "encoding/csv.Reader.Read":
		// progress: a successful read consumes input (the remaining input is a well-founded measure); a failed one does not
		rt := recv.(VTerm).T
		old := e.extCounter(st, "extrem", rt)
		nr := e.fresh("extrem", SInt)
		err := errOf()
		st.assume(mkAnd(mkImplies(mkEq(err, nilT), mkAnd(mkCmp("<=", mkInt(0), nr), mkCmp("<", nr, old))), mkImplies(mkNot(mkEq(err, nilT)), mkEq(nr, old))))
		st.mem["extrem:"+rt.String()] = nr
		if full == "encoding/json.Decoder.Decode" && targetObj != nil {
			// encoding/json merges into the destination (absent struct fields keep their contents, maps are added to):
			// only a destination holding the zero value is known to end up as the decoded element. jsoncnt(d): values
			// decoded so far; jsonelem(r, k): the k-th value of the document read from r, decoded into a zero value
			if ov, ok := oldTarget.(VTerm); ok {
				if nv, ok := st.vars[targetObj].(VTerm); ok {
					cnt := e.extCounter(st, "jsoncnt", rt)
					src := st.getMem("jsonsrc:"+rt.String(), mkApp("jsonsrc0", SRef, rt))
					elem := mkApp("jsonelem_"+sortTag(nv.T.Sort), nv.T.Sort, src, cnt)
					zero := term(e.zeroValue(targetObj.Type()))
					st.assume(mkImplies(mkAnd(mkEq(err, nilT), mkEq(ov.T, zero)), mkEq(nv.T, elem)))
					st.mem["jsoncnt:"+rt.String()] = mkIte(mkEq(err, nilT), mkArith("+", cnt, mkInt(1)), cnt)
				}
			}
		}
		if full == "encoding/csv.Reader.Read" {
			// FieldsPerRecord == 0 (default): every record has the field count of the first record read
			rec := results[0].(VSlice)
			fpr := e.extCounter(st, "csvfpr", rt)
			nf := e.fresh("csvfpr", SInt)
			st.assume(mkImplies(mkEq(err, nilT), mkAnd(mkImplies(mkCmp("<", fpr, mkInt(0)), mkEq(nf, rec.Len)), mkImplies(mkCmp(">=", fpr, mkInt(0)), mkAnd(mkEq(nf, fpr), mkEq(rec.Len, fpr))))))
			st.assume(mkImplies(mkNot(mkEq(err, nilT)), mkEq(nf, fpr)))
			st.mem["csvfpr:"+rt.String()] = nf
		}
	case "encoding/csv.NewReader":
		// documented defaults of the dialect fields (the same dialect encoding/csv.Writer produces)
		for f, v := range map[string]*Term{"Comma": mkInt(','), "Comment": mkInt(0), "FieldsPerRecord": mkInt(0), "LazyQuotes": tFalse, "TrimLeadingSpace": tFalse, "ReuseRecord": tFalse} {
			st.mem["fld:"+term(results[0]).String()+"."+f] = v
		}
		st.mem["csvfpr:"+term(results[0]).String()] = mkInt(-1)
		st.assume(mkCmp(">=", e.extCounter(st, "extrem", term(results[0])), mkInt(0)))
	case "encoding/json.NewDecoder":
		st.mem["jsoncnt:"+term(results[0]).String()] = mkInt(0)
		st.mem["jsonsrc:"+term(results[0]).String()] = term(args[0])
		st.assume(mkCmp(">=", e.extCounter(st, "extrem", term(results[0])), mkInt(0)))
	case "os.OpenFile":
		// ghost: was the file opened with O_TRUNC / O_APPEND (flags are a constant expression in this code base)
		if fl := term(args[1]); fl.Op == "int" && fl.Int.IsInt64() {
			f := term(results[0])
			st.mem["ftrunc:"+f.String()] = mkInt(fl.Int.Int64() & 0x200 >> 9)
			st.mem["fappend:"+f.String()] = mkInt(fl.Int.Int64() & 0x400 >> 10)
		}
	case "os.Stat":
		// ghost link: the file exists exactly when the ghost csv file system has it; FileInfo.Size() of an existing
		// file is 0 only if it holds no rows (fs_size is the size reported for that path)
		if err := errOf(); err != nil && len(args) == 1 {
			fsv := e.ghostView(st, mkConst("csvfs", SRef))
			st.assume(mkEq(mkEq(err, nilT), mkSelect(fsv.Has, term(args[0]))))
			st.assume(mkEq(mkApp("fileinfo_size", SInt, term(results[0])), mkApp("fs_size", SInt, term(args[0]))))
			st.assume(mkImplies(mkAnd(mkEq(err, nilT), mkEq(mkApp("fs_size", SInt, term(args[0])), mkInt(0))), mkEq(mkSelect(fsv.Len, term(args[0])), mkInt(0))))
			st.assume(mkCmp(">=", mkApp("fs_size", SInt, term(args[0])), mkInt(0)))
		}
	case "io/fs.FileInfo.Size":
		st.assume(mkEq(term(results[0]), mkApp("fileinfo_size", SInt, term(recv))))
	case "os.ReadDir":
		if sl, ok := results[0].(VSlice); ok && len(args) == 1 {
			e.nfresh++
			i := mkVar(fmt.Sprintf("i$%d", e.nfresh), SInt)
			el := mkSelect(sl.Arr, i)
			st.assume(mkForall([]*Term{i}, mkImplies(mkAnd(mkCmp("<=", mkInt(0), i), mkCmp("<", i, sl.Len)), mkApp("fs_direntry", SBool, term(args[0]), mkApp("direntry_name", SStr, el))), [][]*Term{{el}}))
		}
	case "net/http.Client.Do", "net/http.NewRequest", "os.Open", "os.Create":
		if err := errOf(); err != nil {
			st.assume(mkImplies(mkEq(err, nilT), mkNot(mkEq(term(results[0]), nilT))))
		}
	}
	rk := strings.NewReplacer(".", "_", "/", "_").Replace(strings.TrimPrefix(full, pkg+"."))
	rk = fn.Pkg().Name() + "_" + rk
	switch len(results) {
	case 0:
		return VTuple{}
	case 1:
		e.callRes[rk] = append(e.callRes[rk], results[0])
		return results[0]
	}
	e.callRes[rk] = append(e.callRes[rk], VTuple(results))
	return VTuple(results)
}

// Sprintf with a constant format of literal text and %s verbs over string-sorted arguments: the concatenation
func (e *Engine) sprintfConcat(format string, anyArgs []Value) *Term {
	var parts []*Term
	lit := ""
	ai := 0
	flush := func() {
		if lit != "" {
			parts = append(parts, mkConst("str_"+sanitize(lit), SStr))
			lit = ""
		}
	}
	for i := 0; i < len(format); i++ {
		if format[i] != '%' {
			lit += string(format[i])
			continue
		}
		if i+1 >= len(format) || format[i+1] != 's' || ai >= len(anyArgs) {
			return nil
		}
		vt, ok := anyArgs[ai].(VTerm)
		if !ok || vt.T.Sort != SStr {
			return nil
		}
		flush()
		parts = append(parts, vt.T)
		ai++
		i++
	}
	flush()
	if ai != len(anyArgs) || len(parts) == 0 {
		return nil
	}
	t := parts[0]
	for _, p := range parts[1:] {
		t = mkApp("str_concat", SStr, t, p)
	}
	return t
}

// package-level variable of an imported package by name
func (e *Engine) pkgVar(path, name string) *types.Var {
	for _, p := range e.w.Pkgs {
		for _, imp := range p.Types.Imports() {
			if imp.Path() == path {
				if v, ok := imp.Scope().Lookup(name).(*types.Var); ok {
					return v
				}
			}
		}
	}
	unsup("package variable %s.%s not found", path, name)
	return nil
}
