package main

import (
	"fmt"
	"go/ast"
	"go/types"
	"math/big"
)

// assumed contracts of functions outside the module (each use is recorded in the notes => evidence)
func (e *Engine) callExternal(fn *types.Func, recv Value, args []Value, cx *ast.CallExpr, st *State) Value {
	pkg := ""
	if fn.Pkg() != nil {
		pkg = fn.Pkg().Path()
	}
	name := fn.Name()
	full := pkg + "." + name
	if sig := fn.Type().(*types.Signature); sig.Recv() != nil {
		rt := sig.Recv().Type()
		if p, ok := rt.(*types.Pointer); ok {
			rt = p.Elem()
		}
		if n, ok := rt.(*types.Named); ok {
			full = pkg + "." + n.Obj().Name() + "." + name
		}
	}
	f64 := types.Typ[types.Float64]
	real := func(i int) *Term { return toReal(term(args[i])) }
	zero := mkRat(new(big.Rat))
	switch full {
	case "math.Sqrt":
		e.notes["assumed external: math.Sqrt(x) = sqrt(x) with sqrt(x)>=0 && sqrt(x)*sqrt(x)==x for x>=0 (real arithmetic)"] = true
		return VTerm{T: mkApp("sqrt", SReal, real(0)), Typ: f64}
	case "math.Abs":
		x := real(0)
		return VTerm{T: mkIte(mkCmp(">=", x, zero), x, mkNeg(x)), Typ: f64}
	case "math.Max":
		return VTerm{T: mkMax(real(0), real(1)), Typ: f64}
	case "math.Min":
		return VTerm{T: mkMin(real(0), real(1)), Typ: f64}
	case "math.Pow":
		x, y := real(0), real(1)
		e.notes["assumed external: math.Pow(x,y) = powr(x,y) with powr(x,2)=x*x, powr(x,-1)=1/x, powr(x,1)=x, other exponents uninterpreted"] = true
		return VTerm{T: mkApp("powr", SReal, x, y), Typ: f64}
	case "math.Floor":
		return VTerm{T: toReal(&Term{Op: "to_int", Args: []*Term{real(0)}, Sort: SInt}), Typ: f64}
	case "math.Round":
		e.notes["assumed external: math.Round(x) = floor(x+1/2) for x>=0, -floor(-x+1/2) otherwise"] = true
		x := real(0)
		half := mkRat(big.NewRat(1, 2))
		up := toReal(&Term{Op: "to_int", Args: []*Term{mkArith("+", x, half)}, Sort: SInt})
		dn := mkNeg(toReal(&Term{Op: "to_int", Args: []*Term{mkArith("+", mkNeg(x), half)}, Sort: SInt}))
		return VTerm{T: mkIte(mkCmp(">=", x, zero), up, dn), Typ: f64}
	case "time.Time.Equal":
		return VTerm{T: mkEq(term(recv), term(args[0])), Typ: types.Typ[types.Bool]}
	case "time.Time.After":
		return VTerm{T: mkCmp(">", term(recv), term(args[0])), Typ: types.Typ[types.Bool]}
	case "time.Time.Before":
		return VTerm{T: mkCmp("<", term(recv), term(args[0])), Typ: types.Typ[types.Bool]}
	case "time.Time.IsZero":
		return VTerm{T: mkEq(term(recv), mkConst("time_zero", SInt)), Typ: types.Typ[types.Bool]}
	case "time.Time.AddDate":
		e.notes["assumed external: time.Time.AddDate(0,0,d) adds d*86400 s (UTC whole days)"] = true
		y, m, d := term(args[0]), term(args[1]), term(args[2])
		if y.Op == "int" && y.Int.Sign() == 0 && m.Op == "int" && m.Int.Sign() == 0 {
			return VTerm{T: mkArith("+", term(recv), mkArith("*", mkInt(86400), d)), Typ: recv.(VTerm).Typ}
		}
		return VTerm{T: mkApp("time_adddate", SInt, term(recv), y, m, d), Typ: recv.(VTerm).Typ}
	case "log/slog.Error", "log/slog.Info", "log/slog.Warn", "log/slog.Debug", "log.Printf", "log.Println", "log.Print",
		"log/slog.Logger.Error", "log/slog.Logger.Info", "log/slog.Logger.Warn", "log/slog.Logger.Debug":
		return VTuple{}
	case "database/sql.Stmt.Exec":
		// assumed external: each Exec of a prepared statement performs one database write, in call order; logged as
		// nexec(stmt), execarg(stmt, i, k) so that contracts can say which writes have happened at return
		e.notes["assumed external: database/sql (*Stmt).Exec performs its write synchronously, once per call (logged as nexec/execarg)"] = true
		rt := recv.(VTerm).T
		key := "nexec:" + rt.String()
		n := st.getMem(key, mkApp("nexec0", SInt, rt))
		if sl, ok := args[0].(VSlice); ok {
			_ = sl
		}
		for i, a := range e.lastAnyArgs {
			if t, ok := a.(VTerm); ok {
				st.assume(mkEq(mkApp(fmt.Sprintf("execarg%d_%s", i, sortTag(t.T.Sort)), t.T.Sort, rt, n), t.T))
			}
		}
		st.mem[key] = mkArith("+", n, mkInt(1))
		return VTuple{VTerm{T: e.fresh("sqlres", SRef), Typ: fn.Type().(*types.Signature).Results().At(0).Type()}, VTerm{T: e.fresh("err", SRef), Typ: fn.Type().(*types.Signature).Results().At(1).Type()}}
	case "time.Sleep":
		return VTuple{}
	case "sync.WaitGroup.Add", "sync.WaitGroup.Done", "sync.WaitGroup.Wait":
		e.notes["assumed external: sync.WaitGroup used only to join; Wait returns after every Done"] = true
		return VTuple{}
	case "slices.Max", "slices.Min":
		sl, ok := args[0].(VSlice)
		if !ok || sl.Len.Op != "int" || !sl.Len.Int.IsInt64() || sl.Len.Int.Int64() < 1 || sl.Len.Int.Int64() > 16 {
			unsup("slices.Max/Min of a slice of non-literal length at %s", e.src(cx))
		}
		acc := mkSelect(sl.Arr, mkInt(0))
		for i := int64(1); i < sl.Len.Int.Int64(); i++ {
			if name == "Max" {
				acc = mkMax(acc, mkSelect(sl.Arr, mkInt(i)))
			} else {
				acc = mkMin(acc, mkSelect(sl.Arr, mkInt(i)))
			}
		}
		return VTerm{T: acc, Typ: sl.Elem}
	case "fmt.Sprintf", "fmt.Sprint", "time.Time.String", "time.Time.Format":
		return VTerm{T: e.fresh("str", SStr), Typ: types.Typ[types.String]}
	case "time.Now":
		return VTerm{T: e.fresh("now", SInt), Typ: fn.Type().(*types.Signature).Results().At(0).Type()}
	case "errors.New", "fmt.Errorf":
		r := e.fresh("err", SRef)
		st.assume(mkNot(mkEq(r, mkConst("nil", SRef))))
		return VTerm{T: r, Typ: fn.Type().(*types.Signature).Results().At(0).Type()}
	}
	unsup("external function %s at %s", full, e.src(cx))
	return nil
}
