package main

import (
	"go/ast"
	"go/types"
	"sort"
)

// The verdict on a property rests on the contracts of the functions its functions call: a caller is checked against
// the callee's contract, so a change inside a callee shows up only as a failure of that callee's own obligations.
// cone() returns the module functions reachable through calls from the given functions (through bodies that are
// inlined as well); the check of a property verifies them too, whatever their clauses are tagged with. Calls through
// an interface stop at the interface contract (refinement is a separate obligation, see refine.go).
func (w *World) cone(keys []string) []string {
	seen := map[string]bool{}
	for _, k := range keys {
		seen[k] = true
	}
	var out []string
	work := append([]string(nil), keys...)
	for len(work) > 0 {
		k := work[0]
		work = work[1:]
		fi := w.Funcs[k]
		if fi == nil || fi.Decl == nil || fi.Decl.Body == nil || fi.Pkg == nil {
			continue
		}
		if fi.Contract != nil && fi.Contract.Trusted {
			continue // its body is not what callers rely on
		}
		info := fi.Pkg.TypesInfo
		ast.Inspect(fi.Decl.Body, func(n ast.Node) bool {
			cx, ok := n.(*ast.CallExpr)
			if !ok {
				return true
			}
			var id *ast.Ident
			switch f := ast.Unparen(cx.Fun).(type) {
			case *ast.Ident:
				id = f
			case *ast.SelectorExpr:
				id = f.Sel
			case *ast.IndexExpr:
				switch g := ast.Unparen(f.X).(type) {
				case *ast.Ident:
					id = g
				case *ast.SelectorExpr:
					id = g.Sel
				}
			case *ast.IndexListExpr:
				switch g := ast.Unparen(f.X).(type) {
				case *ast.Ident:
					id = g
				case *ast.SelectorExpr:
					id = g.Sel
				}
			}
			if id == nil {
				return true
			}
			fn, ok := info.Uses[id].(*types.Func)
			if !ok || fn.Pkg() == nil {
				return true
			}
			ck := w.keyOf(fn)
			if seen[ck] || w.Funcs[ck] == nil {
				return true
			}
			seen[ck] = true
			work = append(work, ck)
			if c := w.Funcs[ck].Contract; c != nil && !c.Trusted {
				out = append(out, ck)
			}
			return true
		})
	}
	sort.Strings(out)
	return out
}
