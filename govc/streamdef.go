package main

import (
	"fmt"
	"go/types"
	"regexp"
	"strings"
)

// Derived streams: //@ stream name(p kind, ...)[j] = expr
// name(args) is a stream (an Int id) whose j-th element is expr, for every integer j. The definition is not
// recursive (expr may use earlier definitions only), so the defining axiom is a conservative extension.
// They let a contract state the documented formula of an indicator as a function of the input streams alone,
// e.g. rmaS(gainS(closings), P, k), instead of naming intermediate channels of the implementation.

type StreamDef struct {
	Name   string
	Params []lemmaParam
	Idx    string
	Body   *SExpr
	Where  string
	Pkg    string
}

var reStream = regexp.MustCompile(`^stream\s+([A-Za-z_][A-Za-z0-9_]*)\s*\(([^)]*)\)\s*\[([A-Za-z_][A-Za-z0-9_]*)\]\s*=\s*(.*)$`)

var fileStreams []*StreamDef

func parseStreamDef(body, where, pkg string) (*StreamDef, error) {
	m := reStream.FindStringSubmatch(body)
	if m == nil {
		return nil, fmt.Errorf("%s: cannot parse stream definition %q", where, body)
	}
	x, err := parseSpec(m[4])
	if err != nil {
		return nil, fmt.Errorf("%s: %v", where, err)
	}
	d := &StreamDef{Name: m[1], Idx: m[3], Body: x, Where: where, Pkg: pkg}
	for _, p := range strings.Split(m[2], ",") {
		f := strings.Fields(p)
		if len(f) == 2 {
			d.Params = append(d.Params, lemmaParam{f[0], f[1]})
		} else if strings.TrimSpace(p) != "" {
			return nil, fmt.Errorf("%s: bad parameter %q", where, p)
		}
	}
	return d, nil
}

// installStreamDefs turns each definition into a prelude function with its defining axiom.
func (e *Engine) installStreamDefs() {
	// definitions may use each other across files: install in dependency order (retry until no progress)
	pending := fileStreams
	for len(pending) > 0 {
		var next []*StreamDef
		var lastErr interface{}
		for _, d := range pending {
			func() {
				defer func() {
					if r := recover(); r != nil {
						lastErr = r
						next = append(next, d)
					}
				}()
				e.installStreamDef(d)
			}()
		}
		if len(next) == len(pending) {
			panic(lastErr)
		}
		pending = next
	}
}

func (e *Engine) installStreamDef(d *StreamDef) {
	{
		if _, ok := prelude[d.Name]; ok {
			return
		}
		names := map[string]Value{}
		var bvs []*Term
		var args []string
		var sorts []string
		for _, p := range d.Params {
			switch p.kind {
			case "stream":
				v := mkVar(p.name, SInt)
				bvs = append(bvs, v)
				names[p.name] = VStream{ID: v, Elem: types.Typ[types.Float64]}
				sorts = append(sorts, "Int")
			case "int":
				v := mkVar(p.name, SInt)
				bvs = append(bvs, v)
				names[p.name] = VTerm{T: v, Typ: types.Typ[types.Int]}
				sorts = append(sorts, "Int")
			case "real":
				v := mkVar(p.name, SReal)
				bvs = append(bvs, v)
				names[p.name] = VTerm{T: v, Typ: types.Typ[types.Float64]}
				sorts = append(sorts, "Real")
			default:
				panic(fmt.Sprintf("%s: stream %s: unsupported parameter kind %q", d.Where, d.Name, p.kind))
			}
			args = append(args, p.kind)
		}
		j := mkVar(d.Idx, SInt)
		names[d.Idx] = VTerm{T: j, Typ: types.Typ[types.Int]}
		st := newState()
		env := &SpecEnv{e: e, st: st, names: names, noScope: true}
		var body *Term
		func() {
			defer func() {
				if r := recover(); r != nil {
					if u, ok := r.(unsupported); ok {
						panic(fmt.Sprintf("%s: stream %s: %s", d.Where, d.Name, u.msg))
					}
					panic(r)
				}
			}()
			body = toReal(term(e.evalSpec(d.Body, env)))
		}()
		app := mkApp(d.Name, SInt, bvs...)
		sel := mkApp("sel_Real", SReal, app, j)
		ax := mkForall(append(append([]*Term(nil), bvs...), j), mkEq(sel, body), [][]*Term{{sel}})
		// dependencies: every prelude function the body mentions
		sy := newSymtab()
		sy.walk(body)
		deps := []string{"sel_Real"}
		for n := range sy.funcs {
			if _, ok := prelude[n]; ok && n != d.Name {
				deps = append(deps, n)
			}
		}
		smt := fmt.Sprintf("(declare-fun %s (%s) Int)\n(assert %s)\n", d.Name, strings.Join(sorts, " "), ax.String())
		addPrelude(&PreludeFn{Name: d.Name, Args: args, Ret: "stream", SMT: smt, Deps: deps,
			Decl: fmt.Sprintf("(declare-fun %s (%s) Int)", d.Name, strings.Join(sorts, " ")), Ax: ax})
	}
}
