package main

// Machine-arithmetic obligations for helper.Bst.searchNode (C17): the three-way decision of the search loop
// (found / go left / go right) is extracted from the real loop body by a small symbolic evaluator over
// bit-vectors (int8..int64) and IEEE floats (float32/64) and compared with ==, <, > on the element type.

import (
	"fmt"
	"go/ast"
	"go/token"
	"go/types"
	"strings"
)

type mtype struct {
	name  string
	sort  Sort
	bits  int
	float bool
	e, s  int
}

var mtypes = []mtype{
	{"int8", "(_ BitVec 8)", 8, false, 0, 0}, {"int16", "(_ BitVec 16)", 16, false, 0, 0}, {"int32", "(_ BitVec 32)", 32, false, 0, 0}, {"int64", "(_ BitVec 64)", 64, false, 0, 0},
	{"float32", "(_ FloatingPoint 8 24)", 32, true, 8, 24}, {"float64", "(_ FloatingPoint 11 53)", 64, true, 11, 53},
}

type menv struct {
	mt   mtype
	vars map[string]*Term
	info *types.Info
}

func (m *menv) zero(s Sort) *Term {
	if strings.HasPrefix(string(s), "(_ BitVec") {
		var n int
		fmt.Sscanf(string(s), "(_ BitVec %d)", &n)
		return &Term{Op: "raw", Name: fmt.Sprintf("(_ bv0 %d)", n), Sort: s}
	}
	var e, sg int
	fmt.Sscanf(string(s), "(_ FloatingPoint %d %d)", &e, &sg)
	return &Term{Op: "raw", Name: fmt.Sprintf("(_ +zero %d %d)", e, sg), Sort: s}
}

func isFP(s Sort) bool { return strings.HasPrefix(string(s), "(_ FloatingPoint") }

func (m *menv) eval(x ast.Expr) *Term {
	switch ex := ast.Unparen(x).(type) {
	case *ast.Ident:
		if v, ok := m.vars[ex.Name]; ok {
			return v
		}
		unsup("machine: unknown identifier %s", ex.Name)
	case *ast.SelectorExpr:
		if id, ok := ex.X.(*ast.Ident); ok && ex.Sel.Name == "value" {
			if v, ok := m.vars[id.Name+".value"]; ok {
				return v
			}
		}
		unsup("machine: selector")
	case *ast.BasicLit:
		if ex.Value == "0" {
			return &Term{Op: "zero"}
		}
		unsup("machine: literal %s", ex.Value)
	case *ast.CallExpr:
		// conversions float64(x), T(x)
		if tv, ok := m.info.Types[ex.Fun]; ok && tv.IsType() && len(ex.Args) == 1 {
			a := m.eval(ex.Args[0])
			to := tv.Type
			if _, isTP := to.(*types.TypeParam); isTP {
				return a
			}
			if b, ok := to.Underlying().(*types.Basic); ok && b.Info()&types.IsFloat != 0 {
				e, s := 11, 53
				if b.Kind() == types.Float32 {
					e, s = 8, 24
				}
				fs := Sort(fmt.Sprintf("(_ FloatingPoint %d %d)", e, s))
				if a.Sort == fs {
					return a
				}
				return &Term{Op: "raw1", Name: fmt.Sprintf("(_ to_fp %d %d) RNE", e, s), Args: []*Term{a}, Sort: fs}
			}
		}
		unsup("machine: call")
	case *ast.BinaryExpr:
		a, b := m.eval(ex.X), m.eval(ex.Y)
		if a.Op == "zero" {
			a = m.zero(b.Sort)
		}
		if b.Op == "zero" {
			b = m.zero(a.Sort)
		}
		fp := isFP(a.Sort)
		bin := func(bv, f string, s Sort) *Term {
			if fp {
				if f == "fp.sub" || f == "fp.add" {
					return &Term{Op: f + " RNE", Args: []*Term{a, b}, Sort: s}
				}
				return &Term{Op: f, Args: []*Term{a, b}, Sort: s}
			}
			return &Term{Op: bv, Args: []*Term{a, b}, Sort: s}
		}
		switch ex.Op {
		case token.SUB:
			return bin("bvsub", "fp.sub", a.Sort)
		case token.ADD:
			return bin("bvadd", "fp.add", a.Sort)
		case token.EQL:
			return bin("=", "fp.eq", SBool)
		case token.NEQ:
			return mkNot(bin("=", "fp.eq", SBool))
		case token.LSS:
			return bin("bvslt", "fp.lt", SBool)
		case token.LEQ:
			return bin("bvsle", "fp.leq", SBool)
		case token.GTR:
			return bin("bvsgt", "fp.gt", SBool)
		case token.GEQ:
			return bin("bvsge", "fp.geq", SBool)
		case token.LAND:
			return mkAnd(a, b)
		case token.LOR:
			return mkOr(a, b)
		}
	}
	unsup("machine: expression %T", x)
	return nil
}

type mout struct {
	cond []*Term
	what string // found, left, right, none
}

func (m *menv) exec(stmts []ast.Stmt, cond []*Term, cur string) []mout {
	outs := []mout{{cond: cond, what: cur}}
	for _, s := range stmts {
		var next []mout
		for _, o := range outs {
			if o.what == "found" {
				next = append(next, o)
				continue
			}
			switch x := s.(type) {
			case *ast.AssignStmt:
				if len(x.Lhs) == 1 && len(x.Rhs) == 1 {
					if id, ok := x.Lhs[0].(*ast.Ident); ok {
						switch {
						case id.Name == "node":
							if se, ok := x.Rhs[0].(*ast.SelectorExpr); ok {
								o.what = se.Sel.Name
							}
						case id.Name == "parent":
						default:
							m.vars[id.Name] = m.eval(x.Rhs[0])
						}
						next = append(next, o)
						continue
					}
				}
				unsup("machine: assignment")
			case *ast.BranchStmt:
				if x.Tok == token.BREAK {
					o.what = "found"
					next = append(next, o)
					continue
				}
				unsup("machine: branch")
			case *ast.IfStmt:
				c := m.eval(x.Cond)
				t := m.exec(x.Body.List, append(append([]*Term(nil), o.cond...), c), o.what)
				var f []mout
				if x.Else != nil {
					switch el := x.Else.(type) {
					case *ast.BlockStmt:
						f = m.exec(el.List, append(append([]*Term(nil), o.cond...), mkNot(c)), o.what)
					case *ast.IfStmt:
						f = m.exec([]ast.Stmt{el}, append(append([]*Term(nil), o.cond...), mkNot(c)), o.what)
					}
				} else {
					f = []mout{{cond: append(append([]*Term(nil), o.cond...), mkNot(c)), what: o.what}}
				}
				next = append(next, t...)
				next = append(next, f...)
			default:
				unsup("machine: statement %T", s)
			}
		}
		outs = next
	}
	return outs
}

// obligations for Bst.searchNode in machine arithmetic
func (e *Engine) bstCompareObligations() (rep *FuncReport) {
	key := "helper.Bst.searchNode"
	rep = &FuncReport{Key: key, Tags: bstProps}
	fi := e.w.Funcs[key]
	if fi == nil {
		rep.Status = "out-of-reach"
		rep.Reason = "helper.Bst.searchNode not found"
		return
	}
	defer func() {
		if r := recover(); r != nil {
			if u, ok := r.(unsupported); ok {
				rep.Status = "out-of-reach"
				rep.Reason = u.msg
				return
			}
			panic(r)
		}
	}()
	var loop *ast.ForStmt
	ast.Inspect(fi.Decl.Body, func(n ast.Node) bool {
		if f, ok := n.(*ast.ForStmt); ok && loop == nil {
			loop = f
		}
		return true
	})
	if loop == nil {
		unsup("machine: no search loop")
	}
	for _, mt := range mtypes {
		m := &menv{mt: mt, vars: map[string]*Term{}, info: fi.Pkg.TypesInfo}
		a := mkConst("value", mt.sort)
		b := mkConst("node_value", mt.sort)
		m.vars["value"] = a
		m.vars["node.value"] = b
		outs := m.exec(loop.Body.List, nil, "none")
		var found, left, right []*Term
		for _, o := range outs {
			c := mkAnd(o.cond...)
			switch o.what {
			case "found":
				found = append(found, c)
			case "left":
				left = append(left, c)
			case "right":
				right = append(right, c)
			default:
				unsup("machine: a path of the search loop neither breaks nor descends")
			}
		}
		var hyps []*Term
		var eq, lt, gt *Term
		if mt.float {
			fin := func(x *Term) *Term {
				return mkAnd(mkNot(&Term{Op: "fp.isNaN", Args: []*Term{x}, Sort: SBool}), mkNot(&Term{Op: "fp.isInfinite", Args: []*Term{x}, Sort: SBool}))
			}
			hyps = []*Term{fin(a), fin(b)}
			eq = &Term{Op: "fp.eq", Args: []*Term{a, b}, Sort: SBool}
			lt = &Term{Op: "fp.lt", Args: []*Term{a, b}, Sort: SBool}
			gt = &Term{Op: "fp.gt", Args: []*Term{a, b}, Sort: SBool}
		} else {
			eq = &Term{Op: "=", Args: []*Term{a, b}, Sort: SBool}
			lt = &Term{Op: "bvslt", Args: []*Term{a, b}, Sort: SBool}
			gt = &Term{Op: "bvsgt", Args: []*Term{a, b}, Sort: SBool}
		}
		add := func(name string, got []*Term, want *Term) {
			rep.Obls = append(rep.Obls, &Obligation{Name: fmt.Sprintf("%s/compare/%s/%s", key, mt.name, name), Func: key, Tags: bstProps, Hyps: hyps,
				Goal: &Term{Op: "=", Args: []*Term{mkOr(got...), want}, Sort: SBool}, Kind: "machine", Where: e.src(loop)})
		}
		add("found-iff-equal", found, eq)
		add("left-iff-less", left, lt)
		add("right-iff-greater", right, gt)
	}
	rep.Status = "checked"
	return rep
}

// replay of a machine-arithmetic counterexample of the search decision on the real Bst
func (e *Engine) bstReplay(o *Obligation, seed int) (map[string]interface{}, bool) {
	parts := strings.Split(o.Name, "/")
	if len(parts) < 4 {
		return nil, false
	}
	tname := parts[2]
	get := func(name string) (string, bool) {
		// (define-fun value () (_ BitVec 8)\n #x9c)
		i := strings.Index(o.Model, "(define-fun "+name+" ()")
		if i < 0 {
			return "", false
		}
		rest := o.Model[i:]
		j := strings.Index(rest, "#")
		if j < 0 {
			return "", false
		}
		k := j
		for k < len(rest) && rest[k] != ')' && rest[k] != '\n' && rest[k] != ' ' {
			k++
		}
		return rest[j:k], true
	}
	parse := func(lit string, bits int) (int64, bool) {
		var u uint64
		if strings.HasPrefix(lit, "#x") {
			if _, err := fmt.Sscanf(lit[2:], "%x", &u); err != nil {
				return 0, false
			}
		} else if strings.HasPrefix(lit, "#b") {
			if _, err := fmt.Sscanf(lit[2:], "%b", &u); err != nil {
				return 0, false
			}
		} else {
			return 0, false
		}
		if bits < 64 && u >= 1<<uint(bits-1) {
			return int64(u) - (1 << uint(bits)), true
		}
		return int64(u), true
	}
	bits := 0
	for _, mt := range mtypes {
		if mt.name == tname && !mt.float {
			bits = mt.bits
		}
	}
	if bits == 0 {
		return nil, false
	}
	vl, ok1 := get("value")
	nl, ok2 := get("node_value")
	if !ok1 || !ok2 {
		return nil, false
	}
	v, ok1 := parse(vl, bits)
	nv, ok2 := parse(nl, bits)
	if !ok1 || !ok2 {
		return nil, false
	}
	src := fmt.Sprintf(`package helper

import "testing"

func TestZZBstReplay(t *testing.T) {
	b := NewBst[%[1]s]()
	b.Insert(%[2]d)
	b.Insert(%[3]d)
	if !b.Contains(%[3]d) {
		t.Errorf("Bst[%[1]s] holding {%[2]d, %[3]d}: Contains(%[3]d) = false")
	}
	if !b.Contains(%[2]d) {
		t.Errorf("Bst[%[1]s] holding {%[2]d, %[3]d}: Contains(%[2]d) = false")
	}
	if !b.Remove(%[3]d) {
		t.Errorf("Bst[%[1]s] holding {%[2]d, %[3]d}: Remove(%[3]d) = false")
	}
	b2 := NewBst[%[1]s]()
	b2.Insert(%[2]d)
	if %[2]d != %[3]d && b2.Contains(%[3]d) {
		t.Errorf("Bst[%[1]s] holding only {%[2]d}: Contains(%[3]d) = true")
	}
}
`, tname, nv, v)
	out, failed := e.runOverlayTest("helper", "zz_bst_replay_verif_test.go", src, "^TestZZBstReplay$")
	return map[string]interface{}{"type": tname, "node_value": nv, "value": v, "history": fmt.Sprintf("NewBst[%s](); Insert(%d); Insert(%d); Contains(%d); Contains(%d); Remove(%d)", tname, nv, v, v, nv, v), "observed": truncate(out, 800)}, failed
}

// properties that rest on the tree: C17 itself, and the moving maximum / minimum behind C01 (values) and C15 (ranges)
var bstProps = []string{"C17", "C15", "C01"}

func isBstProp(p string) bool {
	for _, x := range bstProps {
		if x == p {
			return true
		}
	}
	return false
}
