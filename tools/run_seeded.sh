#!/bin/bash
# usage: run_seeded.sh [id ...]   -- applies each seeded change to /repo, runs the check of the property it breaks
# (govc directly, evidence and replays go to scratch), records the outcome in seeded/<id>/detection.txt, undoes the change
export GOFLAGS=-mod=mod GOPROXY=off GOSUMDB=off GOTOOLCHAIN=local
cd /verif
if [ -n "$(git -C /repo status --porcelain)" ]; then echo "REFUSING: /repo has uncommitted changes"; exit 3; fi
for id in ${@:-$(ls seeded)}; do
  d=seeded/$id; prop=${id:0:3}
  [ -f $d/patch.diff ] || continue
  if ! git -C /repo apply /verif/$d/patch.diff 2>/dev/null; then echo "$id NOAPPLY"; echo "patch does not apply to /repo HEAD" > $d/detection.txt; continue; fi
  level=$(python3 -c "import json,sys;print(next((c['level_claimed']['category'] for c in json.load(open('MANIFEST.json'))['checks'] if c['property_id']==sys.argv[1]),'proof'))" $prop)
  out=$(bin/govc verify -prop $prop -level $level -replays /root/scratch/replays 2>&1)
  git -C /repo checkout -- . ; git -C /repo clean -fdq
  nv=$(echo "$out" | grep -c "^VIOLATION")
  { echo "check: ./check $prop (run as govc verify -prop $prop against /repo with seeded/$id/patch.diff applied)"
    echo "violations reported: $nv"
    echo "$out" | grep "^FAIL\|^OUT-OF-REACH\|^VIOLATION" | grep -v "KNOWN" | cut -c1-200 | head -12
    echo "$out" | grep "^functions=" | tail -1
  } > $d/detection.txt
  echo "$id prop=$prop violations=$nv"
done
