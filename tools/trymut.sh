#!/bin/bash
# usage: trymut.sh <patch.diff> <prop> [prop...]   -- applies a seeded change to /repo, runs the checks, undoes it
P="$1"; shift
if [ -n "$(git -C /repo status --porcelain)" ]; then echo "REFUSING: /repo has uncommitted changes"; git -C /repo status --short; exit 3; fi
git -C /repo apply "$P" || { echo "patch does not apply"; exit 4; }
for prop in "$@"; do
  echo "== $(basename $(dirname $P)) vs $prop"
  /verif/bin/govc verify -prop "$prop" -replays /root/scratch/replays 2>&1 | grep "^FAIL\|^OUT\|^functions\|^KNOWN\|^VIOL" | cut -c1-160 | head -8
done
git -C /repo checkout -- . ; git -C /repo clean -fdq
