#!/bin/bash
# re-confirms every seeded change in a scratch worktree of /repo HEAD: applies, builds, full suite passes,
# demo fails with the change and passes without it. Writes /root/scratch/seeded_confirm.tsv
export GOFLAGS=-mod=mod GOPROXY=off GOSUMDB=off GOTOOLCHAIN=local
WT=/tmp/wt/confirm
OUT=/root/scratch/seeded_confirm.tsv
declare -A DIR=( [C16a]=helper [C16b]=helper [C17a]=helper [C17b]=helper [C07a]=strategy [C07b]=strategy/decorator [C08a]=strategy [C08b]=strategy [C02a]=trend [C02b]=momentum [C05a]=strategy/trend [C05b]=strategy/momentum [C10a]=asset [C10b]=asset [C09a]=strategy/decorator [C09b]=trend [C03a]=trend [C03b]=momentum [C06a]=strategy/volume [C06b]=strategy/trend [C01a]=volume [C01b]=trend [C04a]=strategy/volume [C04b]=strategy/trend [C19a]=helper [C19b]=asset [C11a]=helper [C11b]=helper [C15a]=volatility [C15b]=momentum [C12a]=asset [C12b]=asset [C13a]=backtest [C13b]=backtest [C18a]=strategy/trend [C18b]=strategy/volume [C14a]=strategy/trend [C14b]=strategy/decorator [C01ra]=trend [C01rb]=volatility [C04ra]=strategy/trend [C04rb]=volume [C05ra]=strategy/volume [C05rb]=strategy/decorator [C10ra]=asset [C10rb]=asset [C15ra]=momentum [C15rb]=momentum [C18ra]=strategy/trend [C18rb]=strategy/volume [C06ra]=strategy/trend [C06rb]=strategy/volume [C14ra]=strategy/trend [C14rb]=strategy/trend  [C16sa]=helper [C16sb]=helper [C11sa]=helper [C11sb]=helper [C07sa]=strategy/decorator [C07sb]=strategy [C12sa]=asset [C12sb]=asset [C19sa]=helper [C19sb]=asset [C02sa]=trend [C02sb]=trend [C03sa]=helper [C03sb]=strategy [C08sa]=strategy [C08sb]=strategy [C09sa]=strategy/decorator [C09sb]=trend [C13sa]=backtest [C13sb]=backtest [C17sa]=helper [C17sb]=helper [C01ta]=trend [C01tb]=trend [C04ta]=trend [C04tb]=strategy/decorator [C05ta]=strategy/trend [C05tb]=strategy [C06ta]=strategy/momentum [C06tb]=strategy/momentum [C10ta]=asset [C10tb]=asset [C14ta]=strategy/volume [C14tb]=strategy/decorator [C15ta]=trend [C15tb]=trend [C18ta]=strategy/volume [C18tb]=strategy/trend)
git -C /repo worktree remove --force $WT 2>/dev/null
git -C /repo worktree add --detach $WT HEAD >/dev/null 2>&1 || exit 1
: > $OUT
for id in ${1:-$(ls /tmp/wt/out)}; do
  d=/tmp/wt/out/$id; pkg=${DIR[$id]}
  if [ -z "$pkg" ] && [ -f $d/notes.md ]; then
    # round 5 on: the sub-agent states the directory in notes.md ("demo package dir: <dir>")
    pkg=$(grep -i -o "demo package dir: *[\`]*[A-Za-z0-9_/.-]*" $d/notes.md | head -1 | sed 's/.*: *//; s/`//g; s#^\./##; s#/$##')
  fi
  if [ -z "$pkg" ] || [ ! -d "$WT/$pkg" ]; then echo -e "$id\tNOPKG($pkg)" >> $OUT; continue; fi
  P=$d/patch.diff; [ -f $d/patch.rebased.diff ] && P=$d/patch.rebased.diff
  cd $WT && git checkout -q -- . && git clean -fdq
  if ! git apply $P 2>/dev/null; then echo -e "$id\tNOAPPLY" >> $OUT; continue; fi
  if ! go build ./... >/dev/null 2>&1; then echo -e "$id\tNOBUILD" >> $OUT; continue; fi
  suite=$(go test -vet=off -count=1 ./... 2>&1 | grep -c "^FAIL\|^---")
  demo=$(ls $d/zz_demo_*_test.go | head -1); cp $demo $WT/$pkg/
  T=$(grep -o "func TestDemo[A-Za-z0-9_]*" $demo | head -1 | sed 's/func //')
  with=$(cd $WT && go test -vet=off -count=1 -timeout 120s -run "^$T\$" ./$pkg/ 2>&1 | tail -1 | cut -c1-40)
  git checkout -q -- .
  without=$(cd $WT && go test -vet=off -count=1 -timeout 120s -run "^$T\$" ./$pkg/ 2>&1 | tail -1 | cut -c1-40)
  rm -f $WT/$pkg/$(basename $demo)
  echo -e "$id\tsuite_fail_lines=$suite\twith=[$with]\twithout=[$without]" >> $OUT
done
cd / && git -C /repo worktree remove --force $WT
echo DONE >> $OUT
