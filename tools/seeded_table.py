#!/usr/bin/env python3
# regenerates the "which check catches which seeded change" table of DESIGN.md (section 0.8) from seeded/*/detection.txt
import os, json, re
rows=[]
known=set(re.findall(r'obligation=(\S+)', open('/verif/known_findings.txt').read()))
for d in sorted(os.listdir('/verif/seeded')):
    p='/verif/seeded/'+d
    if not os.path.exists(p+'/meta.json'): continue
    m=json.load(open(p+'/meta.json'))
    det=open(p+'/detection.txt').read() if os.path.exists(p+'/detection.txt') else ''
    nv=re.search(r'violations reported: (\d+)',det)
    nv=int(nv.group(1)) if nv else -1
    obl=[l for l in det.split('\n') if l.startswith('FAIL') or l.startswith('OUT-OF-REACH')]
    obl=[l for l in obl if l.split()[1].rstrip(':') not in known]
    first=obl[0].split()[1] if obl else ''
    extra=''
    if os.path.exists(p+'/other_checks.txt'): extra=open(p+'/other_checks.txt').read().strip()
    rows.append((d,m['title'][:90].replace('|','/'),m['property_broken'],'yes' if nv>0 else ('NO' if nv==0 else '?'),first[:80],extra))
out=['| id | change | own check | caught | first failing obligation | notes |','|---|---|---|---|---|---|']
for r in rows:
    out.append('| %s | %s | ./check %s | %s | `%s` | %s |'%r)
tab='\n'.join(out)
s=open('/verif/DESIGN.md').read()
a='<!-- seeded-table-begin -->'; b='<!-- seeded-table-end -->'
if a in s:
    s=s[:s.index(a)+len(a)]+'\n'+tab+'\n'+s[s.index(b):]
    open('/verif/DESIGN.md','w').write(s)
print(tab)
