#!/bin/bash
# usage: run_seeded_wt.sh id ...   -- like run_seeded.sh, but applies each seeded change in a scratch worktree of
# /repo HEAD (govc verify -repo <worktree>), so /repo itself is never touched and other checks may run meanwhile.
# The outcome goes to seeded/<id>/detection.txt; the worktree is removed at the end.
export GOFLAGS=-mod=mod GOPROXY=off GOSUMDB=off GOTOOLCHAIN=local
cd /verif
WT=/tmp/wt/mut$$
git -C /repo worktree add --detach $WT HEAD >/dev/null 2>&1 || { echo "cannot create $WT"; exit 3; }
for id in "$@"; do
  d=seeded/$id; prop=${id:0:3}
  [ -f $d/patch.diff ] || continue
  git -C $WT checkout -q -- . ; git -C $WT clean -fdq
  if ! git -C $WT apply /verif/$d/patch.diff 2>/dev/null; then echo "$id NOAPPLY"; echo "patch does not apply to /repo HEAD" > $d/detection.txt; continue; fi
  level=$(python3 -c "import json,sys;print(next((c['level_claimed']['category'] for c in json.load(open('MANIFEST.json'))['checks'] if c['property_id']==sys.argv[1]),'proof'))" $prop)
  out=$(bin/govc verify -repo $WT -prop $prop -level $level -replays /root/scratch/replays 2>&1)
  nv=$(echo "$out" | grep -c "^VIOLATION")
  { echo "check: ./check $prop (run as govc verify -prop $prop against a scratch worktree of /repo HEAD with seeded/$id/patch.diff applied)"
    echo "violations reported: $nv"
    echo "$out" | grep "^FAIL\|^OUT-OF-REACH\|^VIOLATION" | grep -v "KNOWN" | cut -c1-200 | head -12
    echo "$out" | grep "^functions=" | tail -1
  } > $d/detection.txt
  echo "$id prop=$prop violations=$nv"
done
cd / && git -C /repo worktree remove --force $WT
