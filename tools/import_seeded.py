#!/usr/bin/env python3
"""import_seeded.py <round> <confirm.tsv> : copies the sub-agent outputs in /tmp/wt/out/<id> that the confirm script
confirmed (suite passes with the change, demo fails with it and passes without it) into /verif/seeded/<id>/ and writes
meta.json.  The package directory of the demo comes from tools/confirm_seeded.sh's DIR map."""
import sys, os, re, json, shutil, glob

rnd = int(sys.argv[1])
tsv = sys.argv[2]
dirmap = dict(re.findall(r"\[(C\d\d\w+)\]=([\w/]+)", open("/verif/tools/confirm_seeded.sh").read()))
for line in open(tsv):
    f = line.rstrip("\n").split("\t", 3)
    if len(f) < 4:
        continue
    id_, suite, with_, without = f
    ok = suite == "suite_fail_lines=0" and "FAIL" in with_ and "ok" in without
    if not ok:
        print("NOT CONFIRMED", line.strip())
        continue
    src = "/tmp/wt/out/" + id_
    dst = "/verif/seeded/" + id_
    os.makedirs(dst, exist_ok=True)
    patch = src + "/patch.rebased.diff" if os.path.exists(src + "/patch.rebased.diff") else src + "/patch.diff"
    shutil.copy(patch, dst + "/patch.diff")
    demo = sorted(glob.glob(src + "/zz_demo_*_test.go"))[0]
    shutil.copy(demo, dst + "/" + os.path.basename(demo))
    notes = open(src + "/notes.md").read() if os.path.exists(src + "/notes.md") else ""
    open(dst + "/notes.md", "w").write(notes)
    title = notes.splitlines()[0].lstrip("# ").strip() if notes else id_
    m = re.search(r"(?ims)^#+\s*(what it needs[^\n]*|trigger[^\n]*|when it (shows|manifests)[^\n]*|needs to manifest[^\n]*|what (is )?need[^\n]*)\n(.*?)(?=^#+\s|\Z)", notes)
    needs = m.group(m.lastindex).strip() if m else ""
    if not needs:
        m = re.search(r"(?ims)^#+\s*why it breaks[^\n]*\n(.*?)(?=^#+\s|\Z)", notes)
        needs = m.group(1).strip() if m else "see notes.md"
    test = re.search(r"func (TestDemo\w+)", open(demo).read()).group(1)
    pkg = dirmap.get(id_)
    if not pkg:
        m2 = re.search(r"(?i)demo package dir:\s*`?([A-Za-z0-9_/.-]+)", notes)
        pkg = m2.group(1).strip("/").lstrip("./") if m2 else "?"
    meta = {
        "id": id_,
        "property_broken": id_[:3],
        "title": title,
        "needs_to_manifest": needs[:1500],
        "round": rnd,
        "demonstration": {
            "file": os.path.basename(demo),
            "package_dir": pkg,
            "run": "copy %s into /repo/%s/ of a scratch worktree with patch.diff applied; go test -vet=off -count=1 -run %s ./%s/" % (os.path.basename(demo), pkg, test, pkg),
        },
        "confirmed": {
            "how": "tools/confirm_seeded.sh in a scratch worktree of /repo HEAD: patch applies, go build ./... succeeds, the full suite passes (0 FAIL lines), the demonstration test FAILS with the change and passes without it",
            "result": "confirmed",
        },
        "produced_by": "fresh sub-agent given only the property text and its own scratch worktree",
    }
    json.dump(meta, open(dst + "/meta.json", "w"), indent=1)
    print("imported", id_, "needs:", needs[:80].replace("\n", " "))
