#!/usr/bin/env python3
# dev-time helper: inserts the C06 clauses (documented rule on documented data) into the base-strategy Compute contracts
import re
B,S='1','0 - 1'
def wires(inp, pairs):
    # pairs: (stream spec, field)
    out=[]
    for sp,fld in pairs:
        out.append(f'guarantees[C06] "input-{fld.lower()}" len({sp}) == len({inp}) && (forall k :: 0 <= k && k < len({inp}) ==> {sp}[k] == {inp}[k].{fld})')
    return out
def rule(label, rng, cond, pos, act):
    return f'guarantees[C06] "{label}" forall k :: 0 <= k && k < {rng} ==> ({cond} ==> result[{pos}] == {act})'
T={}
def add(pkg,name,lines): T[(pkg,name)]=lines
R=lambda n,i=0,j=None: f'res({n}, {i})' if j is None else f'res({n}, {i}, {j})'
A=lambda n,i,j: f'arg({n}, {i}, {j})'
# ---- trend
add('strategy/trend','AlligatorStrategy', lambda inp: wires(inp,[(A('Smma_Compute',0,0),'Close'),(A('Smma_Compute',1,0),'Close'),(A('Smma_Compute',2,0),'Close')]))
add('strategy/trend','ApoStrategy', lambda inp: wires(inp,[(A('Apo_Compute',0,0),'Close')])+[
  rule('crossing-above-zero-buys', f'len({R("Apo_Compute")}) - 1', f'{R("Apo_Compute")}[k+1] > 0 && {R("Apo_Compute")}[k] < 0', 'k + a.Apo.SlowPeriod', B),
  rule('crossing-below-zero-sells', f'len({R("Apo_Compute")}) - 1', f'{R("Apo_Compute")}[k+1] < 0 && {R("Apo_Compute")}[k] > 0', 'k + a.Apo.SlowPeriod', S)])
add('strategy/trend','AroonStrategy', lambda inp: wires(inp,[(A('Aroon_Compute',0,0),'High'),(A('Aroon_Compute',0,1),'Low')])+[
  rule('up-above-down-buys', f'len({R("Aroon_Compute",0,0)})', f'{R("Aroon_Compute",0,0)}[k] > {R("Aroon_Compute",0,1)}[k]', 'k + a.Aroon.Period - 1', B),
  rule('down-above-up-sells', f'len({R("Aroon_Compute",0,0)})', f'{R("Aroon_Compute",0,1)}[k] > {R("Aroon_Compute",0,0)}[k]', 'k + a.Aroon.Period - 1', S)])
add('strategy/trend','BopStrategy', lambda inp: wires(inp,[(A('Bop_Compute',0,0),'Open'),(A('Bop_Compute',0,1),'High'),(A('Bop_Compute',0,2),'Low'),(A('Bop_Compute',0,3),'Close')])+[
  rule('positive-buys', f'len({R("Bop_Compute")})', f'{R("Bop_Compute")}[k] > 0', 'k', B), rule('negative-sells', f'len({R("Bop_Compute")})', f'{R("Bop_Compute")}[k] < 0', 'k', S)])
add('strategy/trend','CciStrategy', lambda inp: wires(inp,[(A('Cci_Compute',0,0),'High'),(A('Cci_Compute',0,1),'Low'),(A('Cci_Compute',0,2),'Close')])+[
  rule('above-100-buys', f'len({R("Cci_Compute")})', f'{R("Cci_Compute")}[k] > 100', 'k + t.Cci.IdlePeriod()', B), rule('below-minus-100-sells', f'len({R("Cci_Compute")})', f'{R("Cci_Compute")}[k] < 0 - 100', 'k + t.Cci.IdlePeriod()', S)])
add('strategy/trend','DemaStrategy', lambda inp: wires(inp,[(A('Dema_Compute',0,0),'Close'),(A('Dema_Compute',1,0),'Close')])+[
  rule('fast-above-slow-buys', f'len({R("Dema_Compute",1)})', f'{R("Dema_Compute",0)}[k + d.Dema2.IdlePeriod() - d.Dema1.IdlePeriod()] > {R("Dema_Compute",1)}[k]', 'k + d.Dema2.IdlePeriod()', B),
  rule('slow-above-fast-sells', f'len({R("Dema_Compute",1)})', f'{R("Dema_Compute",1)}[k] > {R("Dema_Compute",0)}[k + d.Dema2.IdlePeriod() - d.Dema1.IdlePeriod()]', 'k + d.Dema2.IdlePeriod()', S)])
add('strategy/trend','EnvelopeStrategy', lambda inp: wires(inp,[(A('Envelope_Compute',0,0),'Close')])+[
  rule('close-below-lower-buys', f'len({R("Envelope_Compute",0,0)})', f'{inp}[k + e.Envelope.IdlePeriod()].Close < {R("Envelope_Compute",0,2)}[k]', 'k + e.Envelope.IdlePeriod()', B),
  rule('close-above-upper-sells', f'len({R("Envelope_Compute",0,0)})', f'{inp}[k + e.Envelope.IdlePeriod()].Close > {R("Envelope_Compute",0,0)}[k] && {inp}[k + e.Envelope.IdlePeriod()].Close >= {R("Envelope_Compute",0,2)}[k]', 'k + e.Envelope.IdlePeriod()', S)])
add('strategy/trend','GoldenCrossStrategy', lambda inp: wires(inp,[(A('Ema_Compute',0,0),'Close'),(A('Ema_Compute',1,0),'Close')])+[
  rule('fast-above-slow-buys', f'len({R("Ema_Compute",1)})', f'{R("Ema_Compute",0)}[k + t.SlowEma.IdlePeriod() - t.FastEma.IdlePeriod()] > {R("Ema_Compute",1)}[k]', 'k + t.SlowEma.IdlePeriod()', B),
  rule('fast-below-slow-sells', f'len({R("Ema_Compute",1)})', f'{R("Ema_Compute",0)}[k + t.SlowEma.IdlePeriod() - t.FastEma.IdlePeriod()] < {R("Ema_Compute",1)}[k]', 'k + t.SlowEma.IdlePeriod()', S)])
add('strategy/trend','KamaStrategy', lambda inp: wires(inp,[(A('Kama_Compute',0,0),'Close')])+[
  rule('close-above-kama-buys', f'len({R("Kama_Compute")})', f'{inp}[k + k0].Close > {R("Kama_Compute")}[k]'.replace('k0','k.Kama.IdlePeriod()') if False else f'{inp}[kk + k.Kama.IdlePeriod()].Close > {R("Kama_Compute")}[kk]', 'kk + k.Kama.IdlePeriod()', B).replace('forall k ::','forall kk ::').replace('0 <= k && k <','0 <= kk && kk <'),
  rule('close-below-kama-sells', f'len({R("Kama_Compute")})', f'{inp}[kk + k.Kama.IdlePeriod()].Close < {R("Kama_Compute")}[kk]', 'kk + k.Kama.IdlePeriod()', S).replace('forall k ::','forall kk ::').replace('0 <= k && k <','0 <= kk && kk <')])
add('strategy/trend','KdjStrategy', lambda inp: wires(inp,[(A('Kdj_Compute',0,0),'High'),(A('Kdj_Compute',0,1),'Low'),(A('Kdj_Compute',0,2),'Close')])+[
  rule('j-above-k-and-d-buys', f'len({R("Kdj_Compute",0,0)})', f'{R("Kdj_Compute",0,2)}[k] > {R("Kdj_Compute",0,0)}[k] && {R("Kdj_Compute",0,2)}[k] > {R("Kdj_Compute",0,1)}[k]', 'k + kdj.Kdj.IdlePeriod()', B),
  rule('j-below-k-and-d-sells', f'len({R("Kdj_Compute",0,0)})', f'{R("Kdj_Compute",0,2)}[k] < {R("Kdj_Compute",0,0)}[k] && {R("Kdj_Compute",0,2)}[k] < {R("Kdj_Compute",0,1)}[k]', 'k + kdj.Kdj.IdlePeriod()', S)])
add('strategy/trend','MacdStrategy', lambda inp: wires(inp,[(A('Macd_Compute',0,0),'Close')])+[
  rule('buy-only-when-macd-above-signal', f'len({R("Macd_Compute",0,0)})', f'result[k + m.Macd.IdlePeriod()] == 1', 'k + m.Macd.IdlePeriod()', '1').replace(f'==> result[k + m.Macd.IdlePeriod()] == 1)', f'==> {R("Macd_Compute",0,0)}[k] > {R("Macd_Compute",0,1)}[k])'),
  rule('sell-only-when-macd-below-signal', f'len({R("Macd_Compute",0,0)})', f'result[k + m.Macd.IdlePeriod()] == 0 - 1', 'x', 'x').replace('==> result[x] == x)', f'==> {R("Macd_Compute",0,0)}[k] < {R("Macd_Compute",0,1)}[k])')])
add('strategy/trend','QstickStrategy', lambda inp: wires(inp,[(A('Qstick_Compute',0,0),'Open'),(A('Qstick_Compute',0,1),'Close')])+[
  rule('crossing-above-zero-buys', f'len({R("Qstick_Compute")}) - 1', f'{R("Qstick_Compute")}[k+1] > 0 && {R("Qstick_Compute")}[k] < 0', 'k + q.Qstick.Sma.Period', B),
  rule('crossing-below-zero-sells', f'len({R("Qstick_Compute")}) - 1', f'{R("Qstick_Compute")}[k+1] < 0 && {R("Qstick_Compute")}[k] > 0', 'k + q.Qstick.Sma.Period', S)])
add('strategy/trend','SmmaStrategy', lambda inp: wires(inp,[(A('Smma_Compute',0,0),'Close'),(A('Smma_Compute',1,0),'Close')]))
add('strategy/trend','TrimaStrategy', lambda inp: wires(inp,[(A('Trima_Compute',0,0),'Close'),(A('Trima_Compute',1,0),'Close')])+[
  rule('short-above-long-buys', f'len({R("Trima_Compute",1)})', f'{R("Trima_Compute",0)}[k + t.Long.IdlePeriod() - t.Short.IdlePeriod()] > {R("Trima_Compute",1)}[k]', 'k + t.Long.IdlePeriod()', B),
  rule('short-below-long-sells', f'len({R("Trima_Compute",1)})', f'{R("Trima_Compute",0)}[k + t.Long.IdlePeriod() - t.Short.IdlePeriod()] < {R("Trima_Compute",1)}[k]', 'k + t.Long.IdlePeriod()', S)])
def tmac(inp):
    f=f'{R("Ema_Compute",0)}[k + t.SlowEma.IdlePeriod() - t.FastEma.IdlePeriod()]'; m=f'{R("Ema_Compute",1)}[k + t.SlowEma.IdlePeriod() - t.MediumEma.IdlePeriod()]'; s=f'{R("Ema_Compute",2)}[k]'
    return wires(inp,[(A('Ema_Compute',0,0),'Close'),(A('Ema_Compute',1,0),'Close'),(A('Ema_Compute',2,0),'Close')])+[
      rule('fast-above-both-buys', f'len({R("Ema_Compute",2)})', f'{f} > {m} && {f} > {s}', 'k + t.SlowEma.IdlePeriod()', B),
      rule('fast-below-both-sells', f'len({R("Ema_Compute",2)})', f'{f} < {m} && {f} < {s}', 'k + t.SlowEma.IdlePeriod()', S)]
add('strategy/trend','TripleMovingAverageCrossoverStrategy', tmac)
add('strategy/trend','TrixStrategy', lambda inp: wires(inp,[(A('Trix_Compute',0,0),'Close')])+[
  rule('positive-buys', f'len({R("Trix_Compute")})', f'{R("Trix_Compute")}[k] > 0', 'k + t.Trix.IdlePeriod()', B), rule('negative-sells', f'len({R("Trix_Compute")})', f'{R("Trix_Compute")}[k] < 0', 'k + t.Trix.IdlePeriod()', S)])
add('strategy/trend','TsiStrategy', lambda inp: wires(inp,[(A('Tsi_Compute',0,0),'Close')])+[
  rule('tsi-positive-and-above-signal-buys', f'len({R("Ma_Compute")})', f'{R("Tsi_Compute")}[k + t.Signal.IdlePeriod()] > 0 && {R("Tsi_Compute")}[k + t.Signal.IdlePeriod()] > {R("Ma_Compute")}[k]', 'k + t.IdlePeriod()', B),
  rule('tsi-negative-and-below-signal-sells', f'len({R("Ma_Compute")})', f'{R("Tsi_Compute")}[k + t.Signal.IdlePeriod()] < 0 && {R("Tsi_Compute")}[k + t.Signal.IdlePeriod()] < {R("Ma_Compute")}[k]', 'k + t.IdlePeriod()', S)])
add('strategy/trend','VwmaStrategy', lambda inp: wires(inp,[(A('Sma_Compute',0,0),'Close'),(A('Vwma_Compute',0,0),'Close'),(A('Vwma_Compute',0,1),'Volume')])+[
  rule('vwma-above-sma-buys', f'len({R("Vwma_Compute")})', f'{R("Vwma_Compute")}[k] > {R("Sma_Compute")}[k]', 'k + v.Vwma.Period - 1', B),
  rule('vwma-below-sma-sells', f'len({R("Vwma_Compute")})', f'{R("Vwma_Compute")}[k] < {R("Sma_Compute")}[k]', 'k + v.Vwma.Period - 1', S)])
add('strategy/trend','WeightedCloseStrategy', lambda inp: wires(inp,[(A('WeightedClose_Compute',0,0),'High'),(A('WeightedClose_Compute',0,1),'Low'),(A('WeightedClose_Compute',0,2),'Close')])+[
  rule('above-average-buys', f'len({R("Ma_Compute")})', f'{R("WeightedClose_Compute")}[k + w.Ma.IdlePeriod()] > {R("Ma_Compute")}[k]', 'k + w.Ma.IdlePeriod()', B),
  rule('below-average-sells', f'len({R("Ma_Compute")})', f'{R("WeightedClose_Compute")}[k + w.Ma.IdlePeriod()] < {R("Ma_Compute")}[k]', 'k + w.Ma.IdlePeriod()', S)])
# ---- momentum
add('strategy/momentum','AwesomeOscillatorStrategy', lambda inp: wires(inp,[(A('AwesomeOscillator_Compute',0,0),'High'),(A('AwesomeOscillator_Compute',0,1),'Low')]))
add('strategy/momentum','RsiStrategy', lambda inp: wires(inp,[(A('Rsi_Compute',0,0),'Close')])+[
  rule('below-buy-threshold-buys', f'len({R("Rsi_Compute")})', f'r.BuyAt < r.SellAt && {R("Rsi_Compute")}[k] < r.BuyAt', 'k + r.Rsi.IdlePeriod()', B),
  rule('above-sell-threshold-sells', f'len({R("Rsi_Compute")})', f'r.BuyAt < r.SellAt && {R("Rsi_Compute")}[k] > r.SellAt', 'k + r.Rsi.IdlePeriod()', S)])
add('strategy/momentum','StochasticRsiStrategy', lambda inp: wires(inp,[(A('StochasticRsi_Compute',0,0),'Close')])+[
  rule('below-buy-threshold-buys', f'len({R("StochasticRsi_Compute")})', f's.BuyAt < s.SellAt && {R("StochasticRsi_Compute")}[k] < s.BuyAt', 'k + s.StochasticRsi.IdlePeriod()', B),
  rule('above-sell-threshold-sells', f'len({R("StochasticRsi_Compute")})', f's.BuyAt < s.SellAt && {R("StochasticRsi_Compute")}[k] > s.SellAt', 'k + s.StochasticRsi.IdlePeriod()', S)])
add('strategy/momentum','TripleRsiStrategy', lambda inp: wires(inp,[(A('Rsi_Compute',0,0),'Close'),(A('Sma_Compute',0,0),'Close')]))
# ---- volatility
add('strategy/volatility','BollingerBandsStrategy', lambda inp: wires(inp,[(A('BollingerBands_Compute',0,0),'Close')])+[
  rule('close-above-upper-buys', f'len({R("BollingerBands_Compute",0,0)})', f'{inp}[k + b.BollingerBands.IdlePeriod()].Close > {R("BollingerBands_Compute",0,0)}[k]', 'k + b.BollingerBands.IdlePeriod()', B),
  rule('close-below-lower-sells', f'len({R("BollingerBands_Compute",0,0)})', f'{inp}[k + b.BollingerBands.IdlePeriod()].Close < {R("BollingerBands_Compute",0,2)}[k] && {inp}[k + b.BollingerBands.IdlePeriod()].Close <= {R("BollingerBands_Compute",0,0)}[k]', 'k + b.BollingerBands.IdlePeriod()', S)])
add('strategy/volatility','SuperTrendStrategy', lambda inp: wires(inp,[(A('SuperTrend_Compute',0,0),'High'),(A('SuperTrend_Compute',0,1),'Low'),(A('SuperTrend_Compute',0,2),'Close')])+[
  rule('close-above-super-trend-buys', f'len({R("SuperTrend_Compute")})', f'{inp}[k + s.SuperTrend.IdlePeriod()].Close > {R("SuperTrend_Compute")}[k]', 'k + s.SuperTrend.IdlePeriod()', B),
  rule('close-below-super-trend-sells', f'len({R("SuperTrend_Compute")})', f'{inp}[k + s.SuperTrend.IdlePeriod()].Close < {R("SuperTrend_Compute")}[k]', 'k + s.SuperTrend.IdlePeriod()', S)])
# ---- volume
def sign(pkg,name,ind,recvidle,fields):
    add(pkg,name, lambda inp: wires(inp,[(A(ind,0,i),f) for i,f in enumerate(fields)])+[
      rule('positive-buys', f'len({R(ind)})', f'{R(ind)}[k] > 0', f'k + {recvidle}', B), rule('negative-sells', f'len({R(ind)})', f'{R(ind)}[k] < 0', f'k + {recvidle}', S)])
sign('strategy/volume','ChaikinMoneyFlowStrategy','Cmf_Compute','c.ChaikinMoneyFlow.IdlePeriod()',['High','Low','Close','Volume'])
sign('strategy/volume','EaseOfMovementStrategy','Emv_Compute','e.EaseOfMovement.IdlePeriod()',['High','Low','Volume'])
sign('strategy/volume','ForceIndexStrategy','Fi_Compute','f.ForceIndex.IdlePeriod()',['Close','Volume'])
add('strategy/volume','MoneyFlowIndexStrategy', lambda inp: wires(inp,[(A('Mfi_Compute',0,0),'High'),(A('Mfi_Compute',0,1),'Low'),(A('Mfi_Compute',0,2),'Close'),(A('Mfi_Compute',0,3),'Volume')])+[
  rule('above-sell-threshold-sells', f'len({R("Mfi_Compute")})', f'm.BuyAt < m.SellAt && {R("Mfi_Compute")}[k] > m.SellAt', 'k + m.MoneyFlowIndex.IdlePeriod()', S),
  rule('below-buy-threshold-buys', f'len({R("Mfi_Compute")})', f'm.BuyAt < m.SellAt && {R("Mfi_Compute")}[k] < m.BuyAt', 'k + m.MoneyFlowIndex.IdlePeriod()', B)])
add('strategy/volume','NegativeVolumeIndexStrategy', lambda inp: wires(inp,[(A('Nvi_Compute',0,0),'Close'),(A('Nvi_Compute',0,1),'Volume')])+[
  rule('below-its-ema-buys', f'len({R("Ema_Compute")})', f'{R("Nvi_Compute")}[k + n.NegativeVolumeIndexEma.IdlePeriod()] < {R("Ema_Compute")}[k]', 'k + n.NegativeVolumeIndex.IdlePeriod() + n.NegativeVolumeIndexEma.IdlePeriod()', B),
  rule('above-its-ema-sells', f'len({R("Ema_Compute")})', f'{R("Nvi_Compute")}[k + n.NegativeVolumeIndexEma.IdlePeriod()] > {R("Ema_Compute")}[k]', 'k + n.NegativeVolumeIndex.IdlePeriod() + n.NegativeVolumeIndexEma.IdlePeriod()', S)])
add('strategy/volume','WeightedAveragePriceStrategy', lambda inp: wires(inp,[(A('Vwap_Compute',0,0),'Close'),(A('Vwap_Compute',0,1),'Volume')])+[
  rule('close-below-vwap-buys', f'len({R("Vwap_Compute")})', f'{inp}[k + v.WeightedAveragePrice.IdlePeriod()].Close < {R("Vwap_Compute")}[k]', 'k + v.WeightedAveragePrice.IdlePeriod()', B),
  rule('close-above-vwap-sells', f'len({R("Vwap_Compute")})', f'{inp}[k + v.WeightedAveragePrice.IdlePeriod()].Close > {R("Vwap_Compute")}[k]', 'k + v.WeightedAveragePrice.IdlePeriod()', S)])
for (pkg,name),fn in T.items():
    cf=f'/repo/{pkg}/zz_contracts_verif.go'
    s=open(cf).read()
    m=re.search(r'(//@ func %s\.Compute\n//@ requires [^\n]*consumed\((\w+)\) == 0[^\n]*\n)'%name, s)
    assert m,(pkg,name)
    inp=m.group(2)
    # drop previous C06 lines of this block
    blk_end=s.index('\n\n', m.end()) if '\n\n' in s[m.end():] else len(s)
    block=s[m.end():blk_end]
    block='\n'.join(l for l in block.split('\n') if not l.startswith('//@ ensures[C06]') and not l.startswith('//@ guarantees[C06]'))
    lines=['//@ '+l for l in fn(inp)]
    s=s[:m.end()]+'\n'.join(lines)+'\n'+block+s[blk_end:]
    open(cf,'w').write(s)
print('done',len(T))
