#!/usr/bin/env python3
# dev-time helper: appends the standard C14 clauses for every strategy Report method (derived from the Compute contract)
import re,subprocess,glob,os
pkgs=['strategy','strategy/trend','strategy/momentum','strategy/volatility','strategy/volume','strategy/decorator','strategy/compound']
def ncols(path):
    src=open(path).read()
    m=re.search(r'\) Report\((\w+) <-chan \*asset\.Snapshot\)(.*?)\n}\n', src, re.S)
    if not m: return None
    body=m.group(2)
    cols=re.findall(r'report\.AddColumn\(helper\.New(Numeric|Annotation)ReportColumn\(([^,)]*)', body)
    return m.group(1), cols
for pkg in pkgs:
    cf=f'/repo/{pkg}/zz_contracts_verif.go'
    s=open(cf).read()
    if '.Report\n' in s:
        s=s[:s.index('\n// ---- reports (C14)')]
    out=['\n// ---- reports (C14): every column has one value per date row; rows carry that date\'s close, annotation, outcome ----']
    for m in re.finditer(r'//@ func (\w+)\.Compute\n((?://@.*\n)+)', s):
        name=m.group(1); block=m.group(2)
        files=[f for f in glob.glob(f'/repo/{pkg}/*.go') if not f.endswith('_test.go') and re.search(r'func \(\w* ?\*?%s\) Report\('%name, open(f).read())]
        if not files: continue
        r=ncols(files[0])
        if not r: continue
        inp,cols=r
        reqs=[l[len('//@ requires '):] for l in block.split('\n') if l.startswith('//@ requires ')]
        cin=re.search(r'consumed\((\w+)\) == 0', ' '.join(reqs)).group(1)
        reqs=[re.sub(r'\b%s\b'%cin, inp, q) for q in reqs]
        wm=re.search(r'"len" len\(\w+\) >= \((.*)\) ==> len\(result\)', block)
        if wm:
            cond=f'len({inp}) > ({wm.group(1)})'
        else:
            wm2=re.search(r'ensures\[C05[^\]]*\] len\(result\) >= len\(\w+\) && \((.*) ==> len\(result\) == len\(\w+\)\)', block)
            if wm2: cond='len(%s) > 0 && (%s)'%(inp, re.sub(r'\b%s\b'%cin, inp, wm2.group(1)))
            else: cond=f'len({inp}) > 0'
        N=len(cols)
        closecol=[i for i,c in enumerate(cols) if c[1]=='"Close"'][-1] if name=='QstickStrategy' else 0
        d=f'len({inp}) - len(result.Date)'
        need_pos = f'(forall k :: 0 <= k && k < len({inp}) ==> {inp}[k].Close > 0)'
        rq=' && '.join(reqs)
        if 'Close > 0' not in rq: rq+=' && '+need_pos
        out.append(f'''//@ func {name}.Report
//@ requires {rq}
//@ ensures[C14] "column-count" len(result.Columns) == {N}
//@ ensures[C14] "one-value-per-date" {cond} ==> (forall i :: 0 <= i && i < len(result.Columns) ==> len(col(result.Columns[i])) == len(result.Date))
//@ ensures[C14] "dates" {cond} ==> len(result.Date) <= len({inp}) && (forall k :: 0 <= k && k < len(result.Date) ==> result.Date[k] == {inp}[k + {d}].Date)
//@ ensures[C14] "close" {cond} ==> (forall k :: 0 <= k && k < len(result.Date) ==> colnum(result.Columns[{closecol}])[k] == {inp}[k + {d}].Close)
//@ ensures[C14] "annotation" {cond} ==> (forall k :: 0 <= k && k < len(result.Date) ==> colstr(result.Columns[{N-2}])[k] == (normS(res({name}_Compute), k + {d}) == 0 - 1 ? "S" : (normS(res({name}_Compute), k + {d}) == 1 ? "B" : "")))
//@ ensures[C14] "outcome" {cond} ==> (forall k :: 0 <= k && k < len(result.Date) ==> colnum(result.Columns[{N-1}])[k] == res(Outcome)[k + {d}] * 100)
//@ ensures[C03] consumed({inp}) == len({inp})
//@ use nlast_hold(res({name}_Compute), len(res({name}_Compute)) - len(arg(ActionsToAnnotations, 0, 0)), len(res({name}_Compute)) - len(arg(ActionsToAnnotations, 0, 0)))
//@ use nlast_skip(res({name}_Compute), arg(ActionsToAnnotations, 0, 0), len(res({name}_Compute)) - len(arg(ActionsToAnnotations, 0, 0)))
''')
    open(cf,'w').write(s.rstrip('\n')+'\n'+'\n'.join(out))
    print(pkg, len(out)-1)
