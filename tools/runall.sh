#!/bin/bash
# runs every claimed check (quick tier) and prints one summary line per property
cd /verif
for p in $(python3 -c "import json;print(' '.join(c['property_id'] for c in json.load(open('MANIFEST.json'))['checks']))"); do
  out=$(./check $p ${1:-quick} 2>&1); rc=$?
  echo "$p rc=$rc $(echo "$out" | grep '^functions=' | tail -1) known=$(echo "$out" | grep -c '^KNOWN-FINDING') viol=$(echo "$out" | grep -c '^VIOLATION')"
done
