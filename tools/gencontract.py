#!/usr/bin/env python3
# dev-time helper: prints the standard length / hygiene / horizon clauses for an indicator Compute method.
# usage: gencontract.py "Type.Compute" "in1,in2" NRESULTS "idle-expr" "config requires" 
import sys
def gen(key, ins, nres, idle, req, extra=()):
    ins=[x.strip() for x in ins.split(',')]
    out=[f'//@ func {key}']
    r=[]
    if req: r.append(req)
    r += [f'consumed({i}) == 0' for i in ins]
    r += [f'len({ins[0]}) == len({i})' for i in ins[1:]]
    out.append('//@ requires '+' && '.join(r))
    res=['result'] if nres==1 else [f'result{i}' for i in range(nres)]
    out.append('//@ ensures[C02] '+' && '.join(f'len({x}) == max(0, len({ins[0]}) - ({idle}))' for x in res))
    out.append('//@ ensures[C03] '+' && '.join([f'consumed({i}) == len({i})' for i in ins]+[f'closed({x})' for x in res]))
    def hmax(k):
        e=f'hor({ins[-1]}, {k})'
        for i in reversed(ins[:-1]): e=f'max(hor({i}, {k}), {e})'
        return e
    for x in res:
        out.append(f'//@ ensures[C04] forall kk :: 0 <= kk && kk < len({x}) ==> hor({x}, kk) <= '+hmax(f'kk + ({idle})'))
    out += ['//@ '+e for e in extra]
    return '\n'.join(out)+'\n'
if __name__=='__main__':
    print(gen(sys.argv[1],sys.argv[2],int(sys.argv[3]),sys.argv[4],sys.argv[5] if len(sys.argv)>5 else ''))
