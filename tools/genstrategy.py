#!/usr/bin/env python3
# dev-time helper: standard C05/C03/C04 clauses of a strategy Compute method with warm-up expression w
def gens(key, inp, w, req='', extra=()):
    out=[f'//@ func {key}']
    r=([req] if req else [])+[f'consumed({inp}) == 0']
    out.append('//@ requires '+' && '.join(r))
    out.append(f'//@ ensures[C05] "len" len({inp}) >= ({w}) ==> len(result) == len({inp})')
    out.append(f'//@ ensures[C05] "len-short" len(result) >= len({inp})')
    out.append(f'//@ ensures[C05] "warmup-hold" forall kk :: 0 <= kk && kk < min(({w}), len(result)) ==> result[kk] == 0')
    out.append(f'//@ ensures[C05] "short-hold" len({inp}) < ({w}) ==> (forall kk :: 0 <= kk && kk < len(result) ==> result[kk] == 0)')
    out.append(f'//@ ensures[C05] "range" forall kk :: 0 <= kk && kk < len(result) ==> 0 - 1 <= result[kk] && result[kk] <= 1')
    out.append(f'//@ ensures[C03] consumed({inp}) == len({inp}) && closed(result)')
    out.append(f'//@ ensures[C04] forall kk :: 0 <= kk && kk < len(result) ==> hor(result, kk) <= hor({inp}, kk)')
    out += ['//@ '+e for e in extra]
    return '\n'.join(out)+'\n'
